"""C02 hunt on the UNCHANGED tree: scenarios in which a trial is NOT placed by the AGP rule of the statement.

Each scenario runs a Solver through the public API, records the trials with a Listener (x, z) and replays the
run with an independent, overflow-safe implementation of the rule.  Exit status 1 and one line per violated
scenario; 0 if every scenario obeys the rule.
"""
import bisect
import contextlib
import io
import math
import sys
import warnings

import numpy as np

from iOpt.method.listener import Listener
from iOpt.problem import Problem
from iOpt.solver import Solver
from iOpt.solver_parametrs import SolverParameters

warnings.simplefilter("ignore")


class P(Problem):
    def __init__(self, f, lo, hi):
        super().__init__()
        self.f = f
        self.dimension = self.numberOfFloatVariables = len(lo)
        self.numberOfObjectives, self.numberOfConstraints = 1, 0
        self.lowerBoundOfFloatVariables = np.array(lo, dtype=np.double)
        self.upperBoundOfFloatVariables = np.array(hi, dtype=np.double)

    def Calculate(self, point, functionValue):
        functionValue.value = self.f(np.array(point.floatVariables, dtype=float))
        return functionValue


class Rec(Listener):
    def __init__(self):
        self.trials = []

    def OnEndIteration(self, savedNewPoints, solution):
        for p in savedNewPoints:
            self.trials.append((float(p.GetX()), float(p.GetZ())))


def replay(trials, N, r_of_k):
    """r_of_k(k): the value of r in force when trial number k+1 (0-based k) was decided."""
    if trials[0][0] != 0.5:
        return "trial 1 is not at x=0.5"
    xs, zs = [0.0, 0.5, 1.0], [None, trials[0][1], None]
    M, zstar = 1.0, trials[0][1]
    for k in range(1, len(trials)):
        x, z = trials[k]
        r = r_of_k(k)
        Rs = []
        for i in range(1, len(xs)):
            D = (xs[i] - xs[i - 1]) ** (1.0 / N)
            zl, zr = zs[i - 1], zs[i]
            if zl is None:
                Rs.append(2 * D - 4 * ((zr - zstar) / (r * M)))
            elif zr is None:
                Rs.append(2 * D - 4 * ((zl - zstar) / (r * M)))
            else:  # written so that no intermediate result overflows
                Rs.append(D + ((zr - zl) / (r * M)) ** 2 / D - 2 * ((zr - zstar) / (r * M) + (zl - zstar) / (r * M)))
        j = bisect.bisect_left(xs, x)
        if not (xs[j - 1] < x < xs[j]):
            return "trial %d at x=%r is not strictly inside an interval of the partition" % (k + 1, x)
        Rmax = max(Rs)
        if Rs[j - 1] < Rmax - 1e-9 * max(1.0, abs(Rmax)):
            return ("trial %d subdivides [%.6g, %.6g] whose characteristic is %.6g, the maximal one is %.6g"
                    % (k + 1, xs[j - 1], xs[j], Rs[j - 1], Rmax))
        zl, zr, xl, xr = zs[j - 1], zs[j], xs[j - 1], xs[j]
        xp = 0.5 * (xl + xr)
        if zl is not None and zr is not None:
            xp -= (1.0 if zr > zl else -1.0) * (abs(zr - zl) / M) ** N / (2 * r)
        if abs(xp - x) > 1e-9 * (xr - xl) + 4e-16:
            return ("trial %d is at x=%.17g, the rule gives %.17g (off by %.2g of the interval length)"
                    % (k + 1, x, xp, abs(xp - x) / (xr - xl)))
        xs.insert(j, x)
        zs.insert(j, z)
        zstar = min(zstar, z)
        for a in (j, j + 1):
            if zs[a - 1] is not None and zs[a] is not None:
                M = max(M, abs(zs[a] - zs[a - 1]) / (xs[a] - xs[a - 1]) ** (1.0 / N))
    return None


def base(y):
    return float(np.sum((y - 0.3) ** 2) + math.sin(5 * y[0]))


def run(f, N, r=2.5, iters=60, second=None):
    problem = P(f, [-1.0] * N, [2.0] * N)
    params = SolverParameters(r=r, eps=1e-12, itersLimit=iters)
    solver = Solver(problem, params)
    rec = Rec()
    solver.AddListener(rec)
    with contextlib.redirect_stdout(io.StringIO()):
        solver.Solve()
        n1 = len(rec.trials)
        if second is not None:  # re-configure the long-lived solver and go on
            params.r, params.itersLimit = second
            solver.Solve()
    return rec.trials, n1


failures = []

# 1. finite double values of magnitude ~1e153: deltax*M*M*r*r overflows to inf, the squared term of the
#    characteristic silently becomes 0 and a non-maximal interval is subdivided (>= ~1e154: NaN, Solve() never returns)
t, _ = run(lambda y: 1e153 * base(y), 1)
m = replay(t, 1, lambda k: 2.5)
if m:
    failures.append("objective values ~1e153 (python floats), N=1: " + m)

# 2. integer-typed objective values (numpy integer scalars): (zr-zl)*(zr-zl) wraps around
t, _ = run(lambda y: np.int32(100000 * base(y)), 2)
m = replay(t, 2, lambda k: 2.5)
if m:
    failures.append("objective returns np.int32 (|values| < 1.1e6), N=2: " + m)

# 3. parameters.r changed between two Solve() calls of one Solver: stale characteristics (old r) are mixed
#    with the new r; no single reading of the rule explains trial 41
t, n1 = run(base, 1, r=2.0, iters=40, second=(4.0, 80))
m_new = replay(t, 1, lambda k: 4.0 if k >= n1 else 2.0)
m_old = replay(t, 1, lambda k: 2.0)
if m_new and m_old:
    failures.append("r changed 2.0 -> 4.0 between Solve() calls, N=1: with the new r: " + m_new + "; with the old r: " + m_old)

# 4. float32 objective values: M, the shift and hence every later x are computed and stored in float32
t, _ = run(lambda y: np.float32(base(y)), 1)
m = replay(t, 1, lambda k: 2.5)
if m:
    failures.append("objective returns np.float32, N=1: " + m)

if failures:
    for line in failures:
        print("C02 VIOLATED on the unchanged tree: " + line)
    sys.exit(1)
print("C02 holds in all hunted scenarios")
sys.exit(0)
