"""Hunt finding on the UNCHANGED tree (borderline, see hunt.md): for N = 1 a GetImage result depends on
the argument of the previous GetInverseImage / GetPreimages call when that argument did not have exactly
one component.  The one-dimensional branch of the image computation writes into the scratch vector left
behind by the last inverse query instead of allocating its own (the N >= 2 branch allocates one)."""
import sys

import numpy as np

from iOpt.evolvent.evolvent import Evolvent


def main():
    problems = []
    fresh = Evolvent([-1.0], [1.0], 1, 10).GetImage(0.3)  # array([-0.4])

    # (a) an inverse query whose argument is longer than N: accepted silently (returns 0.55, as for N >= 2,
    #     where the extra coordinates are ignored and nothing is remembered) ...
    ev = Evolvent([-1.0], [1.0], 1, 10)
    ev.GetInverseImage([0.1, 0.2])
    later = ev.GetImage(0.3)  # ... but the NEXT image has two components, the second one is the old 0.2
    if later.shape != fresh.shape or not np.array_equal(later, fresh):
        problems.append("after GetInverseImage([0.1, 0.2]) GetImage(0.3) = %r, a fresh object gives %r"
                        % (later.tolist(), fresh.tolist()))

    # (b) an inverse query that is rejected with an exception (scalar instead of a vector) leaves the object
    #     unusable for valid image queries
    ev = Evolvent([-1.0], [1.0], 1, 10)
    try:
        ev.GetPreimages(0.3)
    except Exception:
        pass
    try:
        later = ev.GetImage(0.3)
        if not np.array_equal(later, fresh):
            problems.append("after a rejected GetPreimages(0.3) GetImage(0.3) = %r" % (later.tolist(),))
    except Exception as e:
        problems.append("after a rejected GetPreimages(0.3) the valid query GetImage(0.3) raises %s: %s"
                        % (type(e).__name__, e))

    # control: the same histories in dimension 2 leave no trace
    ev2 = Evolvent([-1.0, -1.0], [1.0, 1.0], 2, 10)
    ref2 = Evolvent([-1.0, -1.0], [1.0, 1.0], 2, 10).GetImage(0.3)
    ev2.GetInverseImage([0.1, 0.2, 0.3])
    try:
        ev2.GetPreimages(0.3)
    except Exception:
        pass
    assert np.array_equal(ev2.GetImage(0.3), ref2)

    if problems:
        print("C17 VIOLATED (N=1, earlier inverse query with a mis-shaped argument): " + "; ".join(problems))
        return 1
    print("C17 holds for N=1 after inverse queries with mis-shaped arguments")
    return 0


if __name__ == "__main__":
    sys.exit(main())
