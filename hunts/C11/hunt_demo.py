"""Hunt finding for C11 on the UNCHANGED tree.

A plain 9-dimensional quadratic, solved with the DEFAULT SolverParameters (eps = 0.01, r = 2, itersLimit = 20000,
evolventDensity = 10).  In 9 dimensions the Hoelder length of the shortest interval a double can represent on
[0,1] is (2**-53)**(1/9) ~ 0.017 > eps, so the eps criterion cannot be met; when the search has driven an interval
down to neighbouring doubles, Method.CalculateNextPointCoordinate raises, Process.Solve swallows the exception
('Exception was thrown') and returns although the stop criterion does NOT hold, the chosen interval having already
left the queue.  A second Solve() on that solver then carries out further global trials.

Exit status 0: Solve ended at the stop criterion and a repeated Solve made no further global trial; 1 otherwise.
"""
import contextlib
import io
import sys
import numpy as np

from iOpt.problem import Problem
from iOpt.solver import Solver
from iOpt.solver_parametrs import SolverParameters


class Quadratic(Problem):
    def __init__(self, n):
        super().__init__()
        self.dimension = n
        self.numberOfFloatVariables = n
        self.numberOfObjectives = 1
        self.numberOfConstraints = 0
        self.lowerBoundOfFloatVariables = np.full(n, -1.0)
        self.upperBoundOfFloatVariables = np.full(n, 1.0)
        self.calls = 0

    def Calculate(self, point, functionValue):
        self.calls += 1
        y = np.array(point.floatVariables, dtype=np.double)
        functionValue.value = float(np.sum((y - 0.21) ** 2))
        return functionValue


def main():
    problem = Quadratic(9)
    params = SolverParameters()
    solver = Solver(problem, params)
    sink = io.StringIO()
    with contextlib.redirect_stdout(sink):
        sol = solver.Solve()
    trials, acc, calls = sol.numberOfGlobalTrials, sol.solutionAccuracy, problem.calls
    holds = acc < params.eps or trials >= params.itersLimit
    with contextlib.redirect_stdout(sink):
        solver.Solve()
        solver.Solve()
    further = sol.numberOfGlobalTrials - trials
    if not holds or further or problem.calls != calls:
        print("VIOLATED: Solve() returned after %d trials with accuracy %.4g >= eps %.4g and itersLimit %d not reached "
              "(stop criterion false, %d x 'Exception was thrown'); two more Solve() calls made %d further global trials"
              % (trials, acc, params.eps, params.itersLimit, sink.getvalue().count("Exception was thrown"), further))
        return 1
    print("OK: Solve ended at the stop criterion after %d trials and repeated Solve calls made no further trial" % trials)
    return 0


if __name__ == "__main__":
    sys.exit(main())
