"""Hunt reproduction on the UNCHANGED tree (borderline, see hunt.md): a box whose bounds are given as numpy
arrays of a narrow integer dtype.  Evolvent keeps the dtype (np.copy) and computes upper-lower and upper+lower
in that dtype, so the width / the centre of the box overflow silently (numpy only emits a RuntimeWarning) and
the trial points are not lower + (j+1/2)*(upper-lower)/2^m any more.  Integer bounds as such are used by the
shipped GKLS problem (lists of ints, which become int64 and are fine)."""
import sys
import warnings
import numpy as np

from iOpt.problem import Problem
from iOpt.solver import Solver
from iOpt.solver_parametrs import SolverParameters

warnings.simplefilter("ignore")


class Box(Problem):
    def __init__(self, lower, upper):
        super().__init__()
        self.numberOfFloatVariables = len(lower)
        self.numberOfObjectives = 1
        self.numberOfConstraints = 0
        self.lowerBoundOfFloatVariables = lower
        self.upperBoundOfFloatVariables = upper
        self.log = []

    def Calculate(self, point, functionValue):
        y = np.array(point.floatVariables, dtype=np.double)
        self.log.append(y)
        functionValue.value = float(np.sum((y - 10.0) ** 2))
        return functionValue


def main():
    m = 6
    for lower, upper in ((np.array([-100, -100], dtype=np.int8), np.array([100, 100], dtype=np.int8)),
                         (np.array([100, 100, 100], dtype=np.uint8), np.array([200, 200, 200], dtype=np.uint8))):
        problem = Box(lower, upper)
        solver = Solver(problem, SolverParameters(eps=1e-9, itersLimit=30, evolventDensity=m))
        solver.Solve()
        lo = lower.astype(np.double)
        up = upper.astype(np.double)
        for k, y in enumerate(problem.log):
            t = (y - lo) / (up - lo) * 2 ** m - 0.5
            if np.abs(t - np.rint(t)).max() > 1e-6 or t.min() < -0.5 or t.max() > 2 ** m - 0.5:
                print("C20 violated on the unchanged tree: bounds %s %s..%s, m=%d: trial %d at %s is not a cell centre "
                      "of the box (grid index %s)" % (lower.dtype, lower.tolist(), upper.tolist(), m, k, y, t))
                return 1
    print("C20 holds for integer-typed bound arrays")
    return 0


if __name__ == "__main__":
    sys.exit(main())
