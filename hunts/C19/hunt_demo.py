"""Hunt result for C19 on the UNCHANGED tree (borderline, see hunt.md).

A container whose boundary pair is not (0, 1) - the shipped unit tests build such containers, e.g. 0.05 .. 0.8 -
receives two insertions whose coordinate lies in [0, 1] but to the LEFT of the first item.
  * the first one raises AttributeError half-way through the re-linking: the container is left with
    first.GetLeft() pointing to the rejected item (neighbour links no longer consistent);
  * the second one is then ACCEPTED silently: GetCount() grows and the item is queued, but traversal never
    yields it, so count != number of traversed items and a best-interval request can return an item that is
    not in the ordered set.
Exit status 0 = statement holds (either both insertions are rejected cleanly or the items are traversed in order),
1 = violated.
"""
import sys

from iOpt.method.search_data import SearchData, SearchDataItem
from iOpt.trial import Point


def item(x, r):
    it = SearchDataItem(Point([x], []), x)
    it.globalR = r
    return it


def main():
    sd = SearchData(None)
    first, last = item(0.05, 4.1), item(0.8, 2.6)
    sd.InsertFirstDataItem(first, last)
    sd.InsertDataItem(item(0.2, 5.0))
    accepted = []
    for x in (0.01, 0.02):
        new = item(x, 9.0)
        try:
            sd.InsertDataItem(new)
            accepted.append(new)
        except Exception:
            pass
    seq = list(sd)
    xs = [i.GetX() for i in seq]
    problems = []
    if sd.GetCount() != len(seq):
        problems.append("GetCount()=%d but traversal yields %d items %s" % (sd.GetCount(), len(seq), xs))
    if any(not any(a is i for i in seq) for a in accepted):
        problems.append("an accepted insertion (x=%s) is not traversed" % [a.GetX() for a in accepted])
    if seq[0].GetLeft() is not None:
        problems.append("first traversed item has a left neighbour x=%g" % seq[0].GetLeft().GetX())
    if xs != sorted(xs):
        problems.append("traversal not sorted")
    best = sd.GetDataItemWithMaxGlobalR()
    if not any(best is i for i in seq):
        problems.append("best-interval request returned x=%g which is not in the traversal" % best.GetX())
    if problems:
        print("C19 VIOLATED on the unchanged tree (insertions left of the first item): " + "; ".join(problems))
        return 1
    print("C19 holds for insertions left of the first item")
    return 0


if __name__ == "__main__":
    sys.exit(main())
