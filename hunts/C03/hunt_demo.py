"""C03 on the UNCHANGED tree: two reproductions (public API + stdlib/numpy only).

A. Termination: a finite objective whose values are of magnitude >= ~1e154 (here 1e160 * smooth function)
   makes (zr - zl)**2 and M*M overflow in Method.CalculateGlobalR -> inf/inf = NaN characteristic ->
   depq's insert loop never ends -> Solve never returns (run in a child process with a 20 s limit;
   the same run with scale 1.0 takes well under a second: 150 trials).
B. Stop rule / accuracy: 10-D problem, ALL solver parameters at their defaults (eps=0.01, r=2, itersLimit=20000).
   The smallest Hoelder length representable near the minimiser is (1 ulp)**(1/10) ~ 0.0156 > eps, so the search
   can never reach eps; after 2547 trials the chosen interval is 1 ulp long, CalculateNextPointCoordinate raises,
   Solve swallows it and returns: far fewer trials than itersLimit with accuracy >= eps ("stopped earlier"), and
   the reported accuracy (0.015625) is the length of the interval that was only CHOSEN, never subdivided
   (the smallest subdivided one is 0.016746).
"""
import bisect
import subprocess
import sys

import numpy as np

from iOpt.method.listener import Listener
from iOpt.problem import Problem
from iOpt.solver import Solver
from iOpt.solver_parametrs import SolverParameters


class Prob(Problem):
    def __init__(self, n, scale=1.0):
        super().__init__()
        self.name = "p"
        self.dimension = n
        self.numberOfFloatVariables = n
        self.numberOfDisreteVariables = 0
        self.numberOfObjectives = 1
        self.numberOfConstraints = 0
        self.floatVariableNames = np.array(["x%d" % i for i in range(n)], dtype=str)
        self.lowerBoundOfFloatVariables = np.array([-1.0 - 0.5 * i for i in range(n)], dtype=np.double)
        self.upperBoundOfFloatVariables = np.array([2.0 + 0.25 * i for i in range(n)], dtype=np.double)
        self.scale = scale
        self.calls = 0

    def Calculate(self, point, functionValue):
        self.calls += 1
        y = np.asarray(point.floatVariables, dtype=float)
        functionValue.value = self.scale * float(np.sum((y - 0.3) ** 2) + 0.3 * np.sin(5 * y[0]))
        return functionValue


class Rec(Listener):
    def __init__(self):
        self.xs = []

    def BeforeMethodStart(self, method):
        pass

    def OnEndIteration(self, points, solution):
        self.xs.extend(float(q.GetX()) for q in points)


if len(sys.argv) > 1 and sys.argv[1] == "child":
    p = Prob(2, scale=float(sys.argv[2]))
    sol = Solver(p, SolverParameters(eps=0.01, r=2.5, itersLimit=150)).Solve()
    print(p.calls, sol.numberOfGlobalTrials)
    sys.exit(0)

problems = []

# A: termination with huge finite objective values
for scale in ("1.0", "1e160"):
    try:
        out = subprocess.run([sys.executable, "-W", "ignore", __file__, "child", scale], capture_output=True,
                             text=True, timeout=20)
        ok = out.returncode == 0
    except subprocess.TimeoutExpired:
        ok = False
    if scale == "1.0" and not ok:
        print("hunt_demo: control run failed: " + out.stderr[-200:])
        sys.exit(2)
    if scale != "1.0" and not ok:
        problems.append("A: Solve did not return within 20 s for the finite objective 1e160*f (2-D, eps=0.01, "
                        "itersLimit=150; same run with scale 1 returns at once)")

# B: 10-D, default parameters
N = 10
p = Prob(N)
params = SolverParameters()
s = Solver(p, params)
rec = Rec()
s.AddListener(rec)
sol = s.Solve()
grid = [0.0, 1.0]
sub = []
for k, x in enumerate(rec.xs):
    i = bisect.bisect_left(grid, x)
    if k > 0:
        sub.append((grid[i] - grid[i - 1]) ** (1.0 / N))
    grid.insert(i, x)
ref = min(sub)
if sol.solutionAccuracy >= params.eps and p.calls < params.itersLimit:
    problems.append(f"B: 10-D default parameters: search stopped after {p.calls} trials < itersLimit={params.itersLimit} "
                    f"with accuracy {sol.solutionAccuracy:.6g} >= eps={params.eps}")
if abs(ref - sol.solutionAccuracy) > 1e-12 * ref:
    problems.append(f"B: reported accuracy {sol.solutionAccuracy:.6g} != smallest subdivided Hoelder length {ref:.6g}")

if problems:
    print("C03 VIOLATED on the unchanged tree: " + " | ".join(problems))
    sys.exit(1)
print("C03 holds in both scenarios")
sys.exit(0)
