"""Hunt on the UNCHANGED tree, property C07, literal reading of the statement.
Two places where the statement as written is false although every argument is of the documented type
(np.double bounds with lower<upper, x a Python float in [0,1], N in 1..5, N*m<=50):
 (A) N=1: the evolvent is the identity, so GetImage(x) is NOT the centre of the cell of x, and x=1 maps to the
     upper bound itself (the closed end of the last cell, grid index 2^m) rather than to a cell centre;
 (B) bounds of magnitude ~1e308 (upper-lower or upper+lower overflows): images are +-inf/NaN, outside the box.
Both are arguably imprecisions of the statement rather than defects of the code - see hunt.md."""
import sys
import warnings
import numpy as np
from iOpt.evolvent.evolvent import Evolvent

warnings.simplefilter("ignore")
msgs = []

# (A) N = 1, m = 2, box [2, 6]: cells [2,3) [3,4) [4,5) [5,6], centres 2.5 3.5 4.5 5.5
ev = Evolvent(np.array([2.0]), np.array([6.0]), 1, 2)
centres = 2.0 + (np.arange(4) + 0.5)
for x, cell in ((0.3, 1), (0.0, 0), (1.0, 3)):
    img = float(ev.GetImage(x)[0])
    if abs(img - centres[cell]) > 1e-12:
        msgs.append("N=1 m=2 box [2,6]: GetImage(%g) = %g, not the centre %g of cell %d" % (x, img, centres[cell], cell))
        break

# (B) double bounds, lower < upper, but upper - lower overflows
lo = np.array([-1.5e308, -1.5e308]); up = np.array([1.5e308, 1.5e308])
img = Evolvent(lo, up, 2, 10).GetImage(0.3)
if not (np.all(np.isfinite(img)) and np.all(img >= lo) and np.all(img <= up)):
    msgs.append("N=2 box [-1.5e308,1.5e308]^2: GetImage(0.3) = %s is not inside the box" % img)

if msgs:
    print("C07 (literal reading) violated on the unchanged tree: " + "; ".join(msgs))
    sys.exit(1)
print("ok")
