"""Hunt finding for C06 on the UNCHANGED tree: the local refinement rewrites a stored trial.

Solver.Solve() with SolverParameters(refineSolution=True) (the setting of nearly all shipped examples), or a direct
Solver.DoLocalRefinement(), puts the Nelder-Mead result INTO the search-information item of the best trial
(solution.bestTrials[0] is that very item).  Afterwards this item - still filed under its old curve coordinate x -
holds a point that is not the evolvent image of x and a value that differs from its own z; global iterations made
later keep working with it.

exit 0 - the record is faithful, exit 1 - violated (one line says where).
"""
import contextlib
import io
import sys

import numpy as np

from iOpt.evolvent.evolvent import Evolvent
from iOpt.problem import Problem
from iOpt.solver import Solver
from iOpt.solver_parametrs import SolverParameters


def objective(y):
    return float(np.sum((y - 0.3) ** 2) + np.sin(5 * y[0]))


class P(Problem):
    def __init__(self, n):
        super().__init__()
        self.dimension = n
        self.numberOfFloatVariables = n
        self.numberOfObjectives = 1
        self.numberOfConstraints = 0
        self.lowerBoundOfFloatVariables = np.array([-1.0] * n, dtype=np.double)
        self.upperBoundOfFloatVariables = np.array([2.0] * n, dtype=np.double)

    def Calculate(self, point, functionValue):
        functionValue.value = objective(np.array(point.floatVariables, dtype=np.double))
        return functionValue


def first_violation(solver, problem, n):
    ev = Evolvent(problem.lowerBoundOfFloatVariables, problem.upperBoundOfFloatVariables, n,
                  solver.parameters.evolventDensity)
    items = list(solver.searchData)
    for i, item in enumerate(items):
        y = np.asarray(item.GetY().floatVariables, dtype=np.double)
        if not np.array_equal(y, ev.GetImage(item.GetX())):
            return "item %d (x=%r) stores the point %s, the evolvent image of x is %s" % (
                i, item.GetX(), y, ev.GetImage(item.GetX()))
        if 0 < i < len(items) - 1 and not (item.functionValues[0].value == item.GetZ() == objective(y)):
            return "item %d stores value %r / z %r, the objective at its point is %r" % (
                i, item.functionValues[0].value, item.GetZ(), objective(y))
    return None


def main():
    n = 2
    problem = P(n)
    solver = Solver(problem, SolverParameters(r=3.0, eps=0.01, itersLimit=100, refineSolution=True))
    with contextlib.redirect_stdout(io.StringIO()):
        solver.DoGlobalIteration(100)
    why = first_violation(solver, problem, n)
    if why is not None:
        print("unexpected: violated before the refinement: " + why)
        return 2
    with contextlib.redirect_stdout(io.StringIO()):
        solver.Solve()  # limit reached: no further global iteration, only the refinement
    why = first_violation(solver, problem, n)
    if why is not None:
        print("C06 violated after Solve(refineSolution=True): " + why)
        return 1
    print("C06 holds after the refinement")
    return 0


if __name__ == "__main__":
    sys.exit(main())
