"""Hunt on the UNCHANGED tree, property C04 (interpretation-dependent, see hunt.md).

An objective that fails once, in the middle of the local refinement of Solve(refineSolution=True).
Solve contains the failure ('Exception was thrown') and returns the unrefined optimum, although the solver has
already evaluated - successfully - Nelder-Mead probes with smaller values: the returned Solution reports a best
value that is larger than the value of a point the solver itself evaluated.

Exit 0: the returned best is the minimum of everything evaluated; exit 1 otherwise (one line).
"""
import io
import sys
from contextlib import redirect_stdout

import numpy as np

from iOpt.problem import Problem
from iOpt.solver import Solver
from iOpt.solver_parametrs import SolverParameters
from iOpt.trial import FunctionValue, Point


class Flaky(Problem):
    def __init__(self, failAtCall):
        super().__init__()
        self.numberOfFloatVariables = 2
        self.numberOfObjectives = 1
        self.numberOfConstraints = 0
        self.lowerBoundOfFloatVariables = np.array([-1.0, -2.0])
        self.upperBoundOfFloatVariables = np.array([3.0, 1.0])
        self.failAtCall = failAtCall
        self.calls = 0
        self.log = []

    def Calculate(self, point: Point, functionValue: FunctionValue) -> FunctionValue:
        self.calls += 1
        if self.calls == self.failAtCall:
            raise RuntimeError("the simulation behind the objective crashed once")
        y = point.floatVariables
        v = float((y[0] - 0.3) ** 2 + (y[1] + 0.4) ** 2)
        self.log.append((tuple(float(t) for t in y), v))
        functionValue.value = v
        return functionValue


def main():
    # 30 global trials, then the refinement; the 6th evaluation of the refinement fails
    problem = Flaky(failAtCall=30 + 6)
    solver = Solver(problem, SolverParameters(r=3.0, eps=0.01, itersLimit=30, refineSolution=True))
    with redirect_stdout(io.StringIO()):
        solution = solver.Solve()
    best = solution.bestTrials[0]
    value = best.functionValues[0].value
    lowest = min(v for _, v in problem.log)
    if lowest < value:
        where = [p for p, v in problem.log if v == lowest][0]
        return ("Solve returned best value %.12g, but the solver evaluated %.12g at %r "
                "(a probe of the aborted local refinement, evaluation #%d of %d)"
                % (value, lowest, where, [v for _, v in problem.log].index(lowest) + 1, len(problem.log)))
    return None


if __name__ == "__main__":
    message = main()
    if message:
        print("C04 (wide reading) VIOLATED on the unchanged tree: " + message)
        sys.exit(1)
    print("ok")
    sys.exit(0)
