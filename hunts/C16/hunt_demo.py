"""Hunt demo for C16 on the UNCHANGED tree.

A shipped painter listener that draws the objective (StaticPaintListener in its default mode
'objective function', exactly as examples/Hill_example.py attaches it) samples problem.Calculate 150 times
in OnMethodStop, i.e. inside Solve and outside of any of Solve's try blocks.  If the objective raises on one
of those evaluations - because it has been failing ever since its k-th evaluation, or because the single
failing evaluation index k happens to fall into the painter's sampling - the exception leaves Solve and the
best-so-far result is not returned.

Exit 0 if Solve returns in both scenarios, 1 (one line) otherwise.
"""
import contextlib
import io
import os
import sys
import tempfile

os.environ.setdefault("MPLBACKEND", "Agg")

import numpy as np  # noqa: E402

from iOpt.method.listener import StaticPaintListener  # noqa: E402
from iOpt.problem import Problem  # noqa: E402
from iOpt.solver import Solver  # noqa: E402
from iOpt.solver_parametrs import SolverParameters  # noqa: E402


class Flaky(Problem):
    def __init__(self, fails):
        super().__init__()
        self.dimension = 1
        self.numberOfFloatVariables = 1
        self.numberOfObjectives = 1
        self.numberOfConstraints = 0
        self.lowerBoundOfFloatVariables = np.array([-1.0])
        self.upperBoundOfFloatVariables = np.array([2.0])
        self.fails = fails  # predicate on the evaluation number
        self.calls = 0

    def Calculate(self, point, functionValue):
        self.calls += 1
        if self.fails(self.calls):
            raise RuntimeError("objective failed on evaluation %d" % self.calls)
        y = float(point.floatVariables[0])
        functionValue.value = (y - 0.3) ** 2 + np.sin(5 * y)
        return functionValue


def scenario(name, fails, tmp):
    problem = Flaky(fails)
    solver = Solver(problem, SolverParameters(eps=1e-9, r=3, itersLimit=20))
    solver.AddListener(StaticPaintListener("hunt.png", tmp, indx=0, isPointsAtBottom=False, mode="objective function"))
    try:
        with contextlib.redirect_stdout(io.StringIO()):
            sol = solver.Solve()
    except BaseException as e:  # noqa
        done = solver.GetResults().numberOfGlobalTrials
        return "%s: Solve did not return (%s: %s) although %d trials were completed" % (name, type(e).__name__, e, done)
    if sol.numberOfGlobalTrials < 1:
        return "%s: no trial in the result" % name
    return None


def main():
    with tempfile.TemporaryDirectory() as tmp:
        for name, fails in (("objective fails from its 12th evaluation on", lambda n: n >= 12),
                            ("objective fails once, on its 60th evaluation", lambda n: n == 60)):
            err = scenario(name, fails, tmp)
            if err:
                print("C16 violated with StaticPaintListener(mode='objective function') attached - " + err)
                return 1
    print("ok")
    return 0


if __name__ == "__main__":
    sys.exit(main())
