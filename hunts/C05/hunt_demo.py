"""C05 on the UNCHANGED tree: trial points can leave the box by 1-2 ulp (no final clip after the rounding in
Evolvent.__TransformP2D: y*fl(upper-lower) + fl((upper+lower)/2) with y -> -0.5 lands below `lower` when the two
rounded constants err in the same direction, e.g. for [0.1, 0.7]).

Scenario A (default evolventDensity): N = 1, box [0.1, 0.7], f(y) = y (minimum on the lower boundary),
            eps = 0 (i.e. "stop on itersLimit only"; any eps below about 5e-17 behaves the same), itersLimit = 100.
            The trials pile up at x -> 0; once x < 2**-54 the image is 0.09999999999999998 < 0.1.
            refineSolution=False: that point is also the RETURNED point.
            refineSolution=True : Nelder-Mead is started from the clipped point 0.1 and returns f = 0.1, which is
                                  WORSE than the best global-phase trial value 0.09999999999999998.
Scenario B (default eps = 0.01): N = 2, box [0.1, 0.7]^2, evolventDensity = 54 (anything >= 54): the cell-centre
            offsets 2**-(m+1) vanish in double precision, face-adjacent trial points have cube coordinate exactly
            -0.5 and the second trial of the run is already at 0.09999999999999998.

Exit status 1 with a one-line explanation when the statement is violated, 0 otherwise.
"""
import contextlib
import io
import sys
import warnings

import numpy as np

from iOpt.problem import Problem
from iOpt.solver import Solver
from iOpt.solver_parametrs import SolverParameters
from iOpt.trial import FunctionValue, Point


class Linear(Problem):
    def __init__(self, lower, upper):
        super().__init__()
        self.numberOfFloatVariables = len(lower)
        self.dimension = len(lower)
        self.numberOfObjectives = 1
        self.numberOfConstraints = 0
        self.lowerBoundOfFloatVariables = np.array(lower, dtype=np.double)
        self.upperBoundOfFloatVariables = np.array(upper, dtype=np.double)
        self.log = []

    def Calculate(self, point: Point, functionValue: FunctionValue) -> FunctionValue:
        y = np.array(point.floatVariables, dtype=np.double)
        self.log.append(y.copy())
        functionValue.value = float(np.sum(y))
        return functionValue


def run(lower, upper, refine, **kw):
    problem = Linear(lower, upper)
    solver = Solver(problem, SolverParameters(r=2.0, refineSolution=refine, **kw))
    with warnings.catch_warnings():
        warnings.simplefilter("ignore")
        with contextlib.redirect_stdout(io.StringIO()):
            sol = solver.Solve()
    lo, up = problem.lowerBoundOfFloatVariables, problem.upperBoundOfFloatVariables
    for k, y in enumerate(problem.log):
        if np.any(y < lo) or np.any(y > up):
            return "evaluation #%d at %r is outside [%r, %r]" % (k, y.tolist(), lower, upper)
    best = np.array(sol.bestTrials[0].point.floatVariables, dtype=np.double)
    if np.any(best < lo) or np.any(best > up):
        return "returned point %r is outside the box" % (best.tolist(),)
    value = sol.bestTrials[0].functionValues[0].value
    bestGlobal = min(float(np.sum(y)) for y in problem.log[:sol.numberOfGlobalTrials])
    if value > bestGlobal:
        return "refined value %r is worse than the best global trial %r" % (value, bestGlobal)
    return None


def main():
    scenarios = [
        ("A: N=1 eps=0 itersLimit=100 refine=False", ([0.1], [0.7], False), dict(eps=0.0, itersLimit=100)),
        ("A: N=1 eps=0 itersLimit=100 refine=True", ([0.1], [0.7], True), dict(eps=0.0, itersLimit=100)),
        ("B: N=2 evolventDensity=54 eps=0.01", ([0.1, 0.1], [0.7, 0.7], False),
         dict(eps=0.01, itersLimit=100, evolventDensity=54)),
    ]
    failures = []
    for name, args, kw in scenarios:
        msg = run(*args, **kw)
        if msg is not None:
            failures.append(name + ": " + msg)
    if failures:
        print("C05 VIOLATED on the unchanged tree: " + " || ".join(failures))
        return 1
    print("C05 holds in the hunted scenarios")
    return 0


if __name__ == "__main__":
    sys.exit(main())
