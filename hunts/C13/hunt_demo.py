"""C13 hunt, unchanged tree: the shipped StaticPaintListener in its documented mode 'interpolation', used as
documented for a multi-dimensional problem (indx = the variable of the 1-D section), makes Solve() raise from
OnMethodStop: the caller gets no result from Solve and a listener attached after the painter is never told that
Solve ended. Exit 0 if the property holds, 1 (one-line explanation) if it is violated."""
import contextlib
import io
import os
import sys
import tempfile
import warnings

warnings.filterwarnings("ignore")
os.environ.setdefault("MPLBACKEND", "Agg")

import numpy as np

from iOpt.method.listener import Listener, StaticPaintListener
from iOpt.problems.rastrigin import Rastrigin
from iOpt.solver import Solver
from iOpt.solver_parametrs import SolverParameters


class Recorder(Listener):
    def __init__(self):
        self.trials = 0
        self.stops = []

    def OnEndIteration(self, savedNewPoints, solution):
        self.trials += len(savedNewPoints)

    def OnMethodStop(self, searchData, solution, status):
        self.stops.append(solution.numberOfGlobalTrials)


def run(listeners):
    solver = Solver(Rastrigin(2), SolverParameters(r=2.5, eps=0.01, itersLimit=100))
    for l in listeners:
        solver.AddListener(l)
    with contextlib.redirect_stdout(io.StringIO()):
        sol = solver.Solve()
    return (sol.numberOfGlobalTrials, tuple(sol.bestTrials[0].point.floatVariables),
            float(sol.bestTrials[0].functionValues[0].value), float(sol.solutionAccuracy))


if __name__ == "__main__":
    with tempfile.TemporaryDirectory() as tmp:
        base = run([])
        rec = Recorder()
        painter = StaticPaintListener("section.png", tmp, indx=0, isPointsAtBottom=False, mode="interpolation")
        try:
            got = run([painter, rec])
        except Exception as e:
            print(f"C13 VIOLATED: with StaticPaintListener(mode='interpolation', indx=0) on Rastrigin(2) Solve() raised "
                  f"{type(e).__name__}: {e} instead of returning the solution; the recorder attached after it saw "
                  f"{rec.trials} trials and {len(rec.stops)} OnMethodStop calls (expected 1)")
            sys.exit(1)
        if got != base or rec.stops != [base[0]]:
            print(f"C13 VIOLATED: result {got} vs {base} without listeners, stops {rec.stops}")
            sys.exit(1)
    print("C13 holds: same result with the painter attached, the end of Solve was reported once")
    sys.exit(0)
