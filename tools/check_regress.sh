#!/bin/sh
# For each fix commit: scratch worktree with that commit reverted, run the matching regression replay(s),
# expect exit 1.  usage: tools/check_regress.sh
set -u
cd /verif
run() { # commit, pid, replay
  d=$(mktemp -d /tmp/iopt-rev-XXXX); rmdir $d
  git -C /repo worktree add -q --detach $d HEAD >/dev/null 2>&1
  if [ -f /verif/tools/unfix/$1.diff ]; then
    # later fixes rewrote the same lines: the defect is put back by a patch against the current tree
    (cd $d && git apply /verif/tools/unfix/$1.diff) || echo "unfix patch failed $1"
  else
    (cd $d && git revert -n $1 >/dev/null 2>&1) || echo "revert failed $1"
  fi
  VERIF_REPO=$d ./check $2 --replay $3 >/tmp/rr.out 2>&1; rc=$?
  echo "$1 $2 $(basename $3): exit $rc $(grep -A1 VIOLATION /tmp/rr.out | tail -1 | cut -c1-150)"
  git -C /repo worktree remove --force $d
}
run 5b9802f C03 replays/regress/C03-D1-np-infty.json
run 6f2d2f2 C12 replays/regress/C12-D2-shared-besttrials.json
run 0656325 C12 replays/regress/C12-D2-shared-besttrials.json
run 8ecd7c5 C05 replays/regress/C05-D4-refine-leaves-box.json
run 6dcabaa C13 replays/regress/C13-D5-base-listener.json
run 2e76fc0 C20 replays/regress/C20-D6-density-ignored.json
run b08346d C07 replays/regress/C07-D7-tail-collapse.json
run b08346d C08 replays/regress/C08-D7-tail-adjacency.json
run 661611b C17 replays/regress/C17-D8-int-scratch.json
run 661611b C09 replays/regress/C09-D8-int-list.json
run 8d9d7b6 C13 replays/regress/C13-D9-painter-arange.json
run D10 C04 replays/regress/C04-D10-refined-optimum-lost.json
run D11 C16 replays/regress/C16-D11-failed-trial-loses-interval.json
run D11 C02 replays/regress/C02-D11-fault-then-continue.json
run D12 C16 replays/regress/C16-D12-refinement-failure-escapes.json
run 71b4939 C03 replays/regress/C03-D13-nonfinite-value-hangs.json
run 674b2db C19 replays/regress/C19-D14-traversal-cursor.json
run bb9a76d C17 replays/regress/C17-D15-0d-argument-modified.json
run 19de2f0 C16 replays/regress/C16-D16-painter-probe-escapes.json
run fbb4e42 C03 replays/regress/C03-D18-refused-interval-accuracy.json
run 4a08f54 C03 replays/regress/C03-D17-huge-values-hang.json
run 4a08f54 C02 replays/regress/C02-D17-huge-values-hang.json
run 19de2f0 C13 replays/regress/C13-D16-painter-fit-escapes.json
run ca8e8fb C05 replays/regress/C05-D19-image-one-ulp-outside.json
run 3a40a21 C06 replays/regress/C06-D20-refinement-rewrites-stored-trial.json
