#!/venv/bin/python
"""Records golden/gkls_reference.json from the tree in $VERIF_REPO (run once at the pinned commit:
the GKLS sources are untouched by the fix commits).  Usage: PYTHONPATH=/repo tools/mk_golden_gkls.py"""
import json
import os
import subprocess
import sys

import numpy as np

sys.path.insert(0, os.environ.get("VERIF_REPO", "/repo"))
from iOpt.problems.GKLS import GKLS
from iOpt.trial import FunctionValue, Point

HERE = os.path.dirname(os.path.dirname(os.path.abspath(__file__)))


def fixed_points(dim):
    base = [0.9, 0.5, 0.3, -0.7, 0.1]
    pts = [[base[(i + s) % 5] for i in range(dim)] for s in range(3)]
    pts.append([0.0] * dim)
    pts.append([(-1) ** i * 0.999 for i in range(dim)])
    return pts


out = {"provenance": {"repo_commit": subprocess.check_output(["git", "-C", os.environ.get("VERIF_REPO", "/repo"),
                                                              "rev-parse", "HEAD"], text=True).strip(),
                      "note": "GKLS sources identical to the pinned commit 2c29fba (git diff is empty)"},
       "functions": {}}
for dim in (2, 3, 4, 5):
    for k in range(1, 101):
        g = GKLS(dim, k)
        m = g.function.GKLS_minima
        vals = []
        for p in fixed_points(dim):
            vals.append(float(g.Calculate(Point(np.array(p, dtype=np.double), []), FunctionValue()).value))
        out["functions"]["%d,%d" % (dim, k)] = {
            "local_min": np.array(m.local_min).tolist(), "f": np.array(m.f).tolist(), "rho": np.array(m.rho).tolist(),
            "points": fixed_points(dim), "values": vals}
os.makedirs(os.path.join(HERE, "golden"), exist_ok=True)
with open(os.path.join(HERE, "golden", "gkls_reference.json"), "w") as f:
    json.dump(out, f)
print("wrote", len(out["functions"]), "functions")
