#!/bin/sh
# usage: tools/import_seed.sh <worktree> <id> <letters-from> <letters-to>   e.g. /tmp/seed2-C19 C19 "a b" "c d"
# copies <worktree>/_seed/<x>/{patch.diff,demo.py,meta.json} to seeded/<id>-<y>/ (nothing from /verif went to the agent)
cd "$(dirname "$0")/.."
set -- "$1" "$2" "$3" "$4"
i=1
for x in $3; do
  y=$(echo $4 | cut -d' ' -f$i); i=$((i+1))
  if [ -f "$1/_seed/$x/patch.diff" ]; then
    mkdir -p seeded/$2-$y
    cp "$1/_seed/$x/patch.diff" "$1/_seed/$x/demo.py" "$1/_seed/$x/meta.json" seeded/$2-$y/
    echo imported seeded/$2-$y
  else
    echo "missing $1/_seed/$x"
  fi
done
