#!/bin/sh
# usage: tools/run_all.sh [tier] -- runs every registered check once (sequentially), prints one line each
cd "$(dirname "$0")/.."
TIER=${1:-quick}
for i in 01 02 03 04 05 06 07 08 09 10 11 12 13 14 15 16 17 18 19 20; do
  s=$(date +%s); out=$(./check C$i --tier $TIER 2>&1); rc=$?; e=$(date +%s)
  echo "C$i rc=$rc $((e-s))s $(echo "$out" | tail -1 | cut -c1-160)"
done
