#!/venv/bin/python
"""Replaces the table of section 9 in DESIGN.md by the output of tools/mkseedtable.py and fills in the two counts."""
import json
import os
import subprocess
import sys

HERE = os.path.dirname(os.path.dirname(os.path.abspath(__file__)))
table = subprocess.run([sys.executable, os.path.join(HERE, "tools", "mkseedtable.py")], capture_output=True,
                       text=True, check=True).stdout.rstrip("\n")
p = os.path.join(HERE, "DESIGN.md")
s = open(p).read()
a = s.index("| change | file(s) | needs, in order to manifest |")
b = a
lines = s[a:].split("\n")
n = 0
for ln in lines:
    if not ln.startswith("|"):
        break
    n += len(ln) + 1
s = s[:a] + table + "\n" + s[a + n:]
total = own = anyc = 0
for name in sorted(os.listdir(os.path.join(HERE, "seeded"))):
    mp = os.path.join(HERE, "seeded", name, "meta.json")
    if not os.path.exists(mp):
        continue
    m = json.load(open(mp))
    checks = m.get("verification", {}).get("checks", {})
    total += 1
    target = m["property"]
    if checks.get(target, {}).get("verdict") == "CAUGHT":
        own += 1
    if any(v.get("verdict") == "CAUGHT" for v in checks.values()):
        anyc += 1
print("seeds", total, "reported by any check", anyc, "by the targeted check", own)
open(p, "w").write(s)
