#!/venv/bin/python
"""Prints the markdown table of the seeded changes under /verif/seeded (for DESIGN.md section 9) from their
meta.json files: what the change needs in order to manifest and which registered checks reported it."""
import json
import os
import sys

HERE = os.path.dirname(os.path.dirname(os.path.abspath(__file__)))
rows = []
for name in sorted(os.listdir(os.path.join(HERE, "seeded"))):
    mp = os.path.join(HERE, "seeded", name, "meta.json")
    if not os.path.exists(mp):
        continue
    m = json.load(open(mp))
    ver = m.get("verification", {})
    checks = ver.get("checks", {})
    caught = sorted(k for k, v in checks.items() if v.get("verdict") == "CAUGHT")
    missed = sorted(k for k, v in checks.items() if v.get("verdict") != "CAUGHT")
    files = ", ".join(os.path.basename(f) for f in m.get("files_changed", []))
    needs = " ".join(str(m.get("needs", "")).split())
    if len(needs) > 230:
        needs = needs[:227] + "..."
    first = m.get("first_run", "")
    rows.append("| %s | %s | %s | %s | %s | %s |" % (name, files, needs.replace("|", "/"), ", ".join(caught) or "-",
                                                  ", ".join(missed) or "-", first))
print("| change | file(s) | needs, in order to manifest | reported by | run, not reported | first run (before strengthening) |")
print("|---|---|---|---|---|---|")
print("\n".join(rows))
