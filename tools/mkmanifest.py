#!/venv/bin/python
"""Regenerates MANIFEST.json from the table below (kept here so the manifest stays valid and current)."""
import json
import os
import sys

HERE = os.path.dirname(os.path.dirname(os.path.abspath(__file__)))

FIXES = [
    # repo fix commits (unguarded, "fix:" prefix); informational only, hooks.source_commits stays empty
]

CHECKS = {
    "C01": dict(cat="exploration", tech="property-based testing (Hypothesis): generated Lipschitz objectives with "
                "known exact minimum and Lipschitz bound; oracle = the stated a-posteriori bound evaluated with "
                "M from an independent AGP model of the observed history",
                text="Generated solver runs on objective families with a closed-form global minimum and a sound "
                "Lipschitz bound; for every accuracy-stopped run whose reliability precondition holds (evaluated "
                "from the observed history) the stated bound on best - f* is asserted. Exploration, not proof: the "
                "theorem is quantified over all Lipschitz functions and the check samples them; the bound has a "
                "factor 2-3 of slack, so it detects damaged searches, not marginally weakened ones. Runs include 1-D thin boxes, eps down to 1e-6 and a first Solve with a small budget that is raised before the deciding Solve. A quarter of the cases refine; about 1 % are very long runs (32,000 trials) on a flat objective with one narrow well; objectives may carry a level of 1e2..1e7 and problems may return a new value holder. First trials may be requested in DoGlobalIteration batches (incl. one large batch on a steep zigzag); the budget raise also runs on boxes with all sides below 1. A tenth of the cases inject one transient objective failure (KeyboardInterrupt, a BaseException subclass or ValueError) and call Solve again.",
                note="Trusted: closed-form minima / Lipschitz bounds of the generated families (vlib/objectives.py), "
                "the independent AGP model (vlib/agp.py), history taken from listener items. Precondition evaluated "
                "with M at the last decision, conclusion with final M (subset of the stated hypothesis).",
                ref="3/C01, 7"),
    "C02": dict(cat="exploration", tech="property-based testing (Hypothesis) against a reference model: every prefix "
                "of every generated run is replayed in an independent re-statement of the AGP decision rule",
                text="Each generated run (all objective families incl. constant/step/quantised ones, N=1..5, Solve "
                "or DoGlobalIteration batches) is replayed trial by trial in an independent model: arg-max interval "
                "(ties free), new-point formula, strict interior, no repeated coordinate, first trial at 0.5. Runs may continue 50-500 trials past a small itersLimit, with an optional Solve and an optional DoLocalRefinement in between; user problems may return a new value holder or numpy scalars. A transient objective failure may occur between the trials. One recipe in sixteen has values of magnitude 1e150..1e305 (squares overflow, values and differences stay finite); the model takes the quotients first.",
                note="Trusted: vlib/agp.py (60-line model), Hypothesis generators; tolerances 1e-9 relative on "
                "characteristics and 1e-12+1e-9*len on points.", ref="3/C02"),
    "C03": dict(cat="exploration", tech="property-based testing (Hypothesis): history-based oracle for evaluation "
                "count, budget, never-earlier/never-later stop and reported accuracy, with edge-class generators "
                "(itersLimit 1/2, eps>=1, eps equal to a reachable Hoelder length)",
                text="One Solve() per generated (objective, box, r, eps, itersLimit); the number of evaluations, the "
                "reported counts, the budget, the exact stopping index and the reported accuracy are recomputed from "
                "the observed history. Termination is decided by an evaluation-count guard. A quarter of the cases spend budget through DoGlobalIteration first and call Solve repeatedly; a sixth raise itersLimit after a first Solve. A tenth of the cases run into the float resolution under an executed-line termination bound; startPoint may be set. Objectives that start returning NaN or an infinity must not keep Solve from returning. Values of magnitude 1e150..1e305 as in C02; at a float-resolution stop the reported accuracy must still be the smallest subdivided Hoelder length.",
                note="Trusted: independent model for interval lengths; strictness of '<' read from the solver's own "
                "reported accuracy; infinite loops without evaluations only surface as a watchdog (exit 2).",
                ref="3/C03"),
    "C04": dict(cat="exploration", tech="property-based testing (Hypothesis): invariant over the run history, "
                "observed inside listener callbacks, after every call and on every returned Solution",
                text="Mixed DoGlobalIteration/Solve call sequences on generated objectives (incl. many equal values, "
                "refinement on/off); at every observation point the reported best is matched against the Calculate "
                "log prefix of that moment (bit-equal point, logged and re-evaluated value, nothing smaller). Runs with and without a listener, with the first Solution object kept and re-read after every later call, and with a second solver stepped in between. startPoint may be set; the second solver may hold the same SolverParameters object and be the next problem of a series; a shipped static painter may be attached (its probes are dropped from the log).",
                note="Trusted: the logging Problem wrapper; observations inside callbacks are snapshots verified after "
                "the call returns.", ref="3/C04"),
    "C05": dict(cat="exploration", tech="property-based testing (Hypothesis): box-containment invariant over the "
                "evaluation log plus metamorphic check of refinement (never worse, value = objective at point)",
                text="Generated objectives whose descent direction leaves the box (linear, outside-vertex bowls, "
                "kinks on faces), all dimensions, thin and far-from-origin boxes, refinement on/off, tiny budgets. Refinement may be requested explicitly (DoLocalRefinement(k), repeated, alternating with global iterations); integer-typed boxes; another solver may run before the result is read. startPoint may lie beyond the box. Containment is exact (no tolerance); one case in eight pushes a 1-D search to the float resolution next to a face of the box.",
                note="Containment exact; global phase = first numberOfGlobalTrials "
                "log entries.", ref="3/C05"),
    "C06": dict(cat="exploration", tech="property-based testing (Hypothesis): after every call the search "
                "information is traversed and compared with the evaluation log, a fresh Evolvent and the listener's "
                "items (model = multiset of evaluations)",
                text="Order, links, count, interval lengths, stored points (bit-equal to a fresh evolvent image) and "
                "stored values are checked after every DoGlobalIteration/Solve call of generated runs. Cases include SolverParameters.startPoint, runs pushed to the float resolution of the curve coordinate, and problems that return a new value holder. An observer may replace the problem object's bound attributes during the run; a shipped static painter may be attached. Values of magnitude 1e150..1e305 as in C02. With refineSolution=True or DoLocalRefinement between the calls every item must still hold the image of its coordinate and the objective value there.",
                note="A third of the cases refine (in Solve, explicitly, or both); the record is compared with the global evaluations. Length tolerance 1e-12 relative.", ref="3/C06"),
    "C07": dict(cat="exploration", tech="exhaustive enumeration of all subintervals up to N*m<=20 (quick) / 24 "
                "(thorough) with an induction step over levels, plus Hypothesis-generated deep cases (exact dyadic x, "
                "N*m<=50, arbitrary boxes) against exact integer cell arithmetic",
                text="Bijection onto the grid is enumerated directly at the base levels and carried to deeper levels "
                "by checking, for EVERY subinterval of a level, that its 2^N children are distinct centres inside "
                "its cell; deep levels (up to N*m=50) are sampled with generators aimed at the ends, the tail and "
                "sub-cube boundaries. Exhaustive in the stated scope, sampled beyond it. The box is configured through the constructor, SetBounds (new or used object), aliased or integer-typed bound arrays, or reached through a query history (which includes taking a non-centre point of the cell back to the curve and asking for the image at the returned abscissa).",
                note="Trusted: exact dyadic construction of x (n/2^53), Fraction arithmetic for indices, unit-cube "
                "centres are exact doubles; non-unit boxes within a stated rounding allowance.", ref="3/C07"),
    "C08": dict(cat="exploration", tech="exhaustive enumeration of all consecutive subinterval pairs up to N*m<=20 "
                "(quick) / 24 (thorough) plus Hypothesis-generated point pairs at every scale checked against the "
                "Hoelder inequality",
                text="Face adjacency of consecutive cells is enumerated completely in the stated scope and sampled up "
                "to N*m=50; nesting reuses the C07 child check; the Hoelder bound is checked on generated pairs at "
                "every scale 2^-k incl. pairs straddling sub-cube boundaries, on arbitrary boxes. Same configuration/history variants as C07 (incl. sides 1e6..2e9 widths away from the origin for m <= 10).",
                note="Trusted: exact dyadic x, unit-cube cell arithmetic; inequality with factor 1+1e-12 plus a few ulp "
                "of the bounds.", ref="3/C08"),
    "C09": dict(cat="exploration", tech="round-trip property-based testing (Hypothesis) in both directions plus "
                "exhaustive x->y->x round trip for N*m<=18 (quick) / 22 (thorough)",
                text="inverse(image(x)) must equal floor(x*T)/T exactly; image(inverse(y)) must lie within half a cell "
                "of y for y uniform, on cell boundaries, faces, corners, centres, as array / list / integer list; "
                "GetPreimages == GetInverseImage; N=1 affine maps. Same configuration/history variants as C07 (incl. sides 1e6..2e9 widths away from the origin for m <= 10).",
                note="Trusted: exact index arithmetic (Fraction); forward round trip on non-unit boxes only where the "
                "affine map's rounding allowance is < 0.01 cell.", ref="3/C09"),
    "C10": dict(cat="exploration", tech="generated-point counter-example search per benchmark instance (grid + "
                "low-discrepancy + bounded local descent, all candidates re-evaluated by the real Calculate), with a "
                "Lipschitz-grid certificate for the 1-D families and the ball structure for GKLS",
                text="Every family member is visited (thorough) or sampled (quick); the declared optimum is evaluated "
                "through Calculate, a lower point is searched for, and descent from the declared point must stay "
                "within 0.5% of the side. 1-D families are certified up to the Lipschitz resolution; in 2-D and above "
                "the global minimum is searched, not certified. Each instance is built after its family predecessor and after one earlier construction of itself (construction history).",
                note="Trusted: vectorised re-implementations are cross-checked against the real Calculate in the same "
                "run; scipy local optimisers only polish candidates.", ref="3/C10"),
    "C11": dict(cat="exploration", tech="differential property-based testing: real solver against real solver under "
                "all compositions (n<=10 exhaustive) and generated compositions of the iteration count",
                text="For every batching of the iterations into DoGlobalIteration calls followed by Solve (all 2^(n-1) "
                "compositions for n<=10, generated ones beyond), the trial sequence must be the prefix of the "
                "single-batch reference bit for bit, the repeated run identical, and a second Solve adds nothing. A third of the cases also repeat a default-parameter run around the creation of another default-parameter solver (N up to 7). A sixth of the cases re-target every run to the same sub-box through the solver's evolvent first.",
                note="Oracle is the implementation itself under a different call pattern (differential); hidden "
                "randomness shows as run-to-run difference within a process.", ref="3/C11"),
    "C12": dict(cat="exploration", tech="stateful property-based testing (Hypothesis RuleBasedStateMachine) over "
                "several live solvers plus exhaustive enumeration of all interleavings of 2x4 and 3x2 single steps; "
                "oracle = each solver run alone (A-B-A)",
                text="Rules create, step, solve and read up to four solvers with different problems; after every rule "
                "every solver's log must be a prefix of its solo log, its search information must pass the C06 "
                "invariants and every Solution ever returned must still report its own solver's optimum. Problems have N=1..7; solvers may share one SolverParameters object or the default; refining Solve calls are compared in full with the solo run. Sub-check shared_pairs: two solvers on one SolverParameters object (incl. solvers driven into the float-resolution branch) against the same calls on separate objects; shipped problems incl. Grishagin; densities 6-12; startPoint. numpy's error state must stay as it was. Sub-check same_problem: two solvers with different parameters on ONE problem object, one possibly re-targeted through its own evolvent, against the same calls with a problem object each.",
                note="Solo runs are computed in the same process before and after the interleaved phase.",
                ref="3/C12"),
    "C13": dict(cat="exploration", tech="property-based testing (Hypothesis) over listener classes generated by "
                "callback subset, shipped listeners and batching; differential non-interference against the same run "
                "without listeners; parsing of the console report",
                text="Every subset of overridden callbacks, combinations with the shipped console and painting "
                "listeners (Agg backend, temporary directory), every batching: notification count/order/content via "
                "a shared event counter, and equality of trial sequence and result with the listener-free run. Includes refineSolution=True, value-equal listeners and objective faults with listeners attached (weak oracle: no phantom trial, nothing escapes Solve). User callbacks use parameter names of their own; problems may lack a dimension attribute. Shipped listeners are tapped so that an exception Solve contains is still seen; a painter fit failure escaping from Solve is a violation.",
                note="Painters' extra objective probes are recognised by event number and excluded from the trial log; "
                "solvingTime is excluded from result comparison.", ref="3/C13"),
    "C14": dict(cat="exploration", tech="property-based testing over all 400 GKLS functions with generated points "
                "(minimisers, ball interiors, straddling pairs, paraboloid region) against the structural promises "
                "and a golden reference recorded from the pinned commit",
                text="Structure (10 minimisers, disjoint balls, paraboloid outside, prescribed values, global minimum "
                "at class distance/radius/value), continuity across ball boundaries with a derived slope bound, and "
                "reproducibility against golden/gkls_reference.json and across repeated constructions. Also: an object regenerated with function.SetFunctionNumber equals a new one; hard-class namesakes built in the same process do not interfere. The tables of an existing function are compared again after other functions were constructed. One object is asked again for numbers it has generated before.",
                note="Golden file shows the generator did not change since the pinned commit; agreement with the "
                "published C generator is not decidable offline.", ref="3/C14"),
    "C15": dict(cat="exploration", tech="stateful property-based testing (Hypothesis RuleBasedStateMachine): "
                "construct/evaluate sequences over all families against a first-value-seen model",
                text="Any sequence of constructions and evaluations (siblings of the same member, other families in "
                "between, repeated points) must return bit-identical values per (member, function, point), leave the "
                "point unchanged and return the supplied holder.", note="Model = dictionary of first values seen. Evaluations also go through argument containers re-used in place; further sibling instances are added by a dedicated rule.",
                ref="3/C15"),
    "C16": dict(cat="fault_enumeration", tech="fault injection enumerated over EVERY evaluation index k of each "
                "generated run and nine exception types in three construction forms, oracle = prefix of the clean run + C06 invariants",
                text="For each generated problem the clean run is recorded, then the objective is armed to raise at "
                "every k in 2..n for each exception type (incl. KeyboardInterrupt, SystemExit, GeneratorExit); "
                "Solve must return and reflect exactly the k-1 completed trials. Nine exception types, each built with a message, without arguments or with several; the listener must have been told exactly the completed trials. The reported accuracy must be one a completed trial reached; a search resumed by a second Solve, and failures inside the local refinement, are checked the same way. Two runs per case attach a shipped painter that draws the objective while the objective keeps failing from evaluation k on, or fails once among the painter's own evaluations.",
                note="All fault positions of the sampled runs are enumerated; the runs themselves are sampled.",
                ref="3/C16"),
    "C17": dict(cat="exploration", tech="stateful property-based testing (Hypothesis RuleBasedStateMachine) on one "
                "Evolvent object, oracle = a brand-new Evolvent with the current bounds",
                text="Interleaved GetImage / GetInverseImage / GetPreimages / SetBounds calls with arguments as array, "
                "list or integer list; every result must be bit-equal to a fresh object's, arguments unchanged "
                "(dtype included), previously returned arrays unchanged.", note="Oracle shares the implementation "
                "(differential against a fresh instance), so it decides purity, not correctness (C07-C09 do). Bounds may be integer-typed at construction, computed from the object's own arrays, or nudged in the 6th-16th digit; SetBounds is also called with an unusable upper argument (if rejected, the object must be as before).",
                ref="3/C17"),
    "C18": dict(cat="exploration", tech="enumeration of every constructor argument of every family (metadata) and of "
                "all 2x1000 table rows against a 1e6-point grid + polishing of every local extremum",
                text="Metadata well-formedness for every member; Hill/Shekel minimum, maximum and Lipschitz tables "
                "recomputed from the functions (values 1e-4, locations 1e-4 of the range, constants 0.1%). Also: overwriting one instance's metadata arrays in place must not change siblings; the real function is evaluated at the published extremiser locations and at both ends of the box. After the instance was used by a refining Solver and its evolvent, its declared metadata must be bit-identical.",
                note="Vectorised formulas cross-checked against the real Calculate in the same run.", ref="3/C18"),
    "C19": dict(cat="exploration", tech="model-based stateful testing (Hypothesis RuleBasedStateMachine) of SearchData, "
                "SearchDataDualQueue and CharacteristicsQueue against an ordered-set / priority-queue model, plus all "
                "operation sequences up to length 6 over a small alphabet",
                text="Insertions with/without hint, find, best-interval requests with stale entries, clears, refills "
                "and traversals are compared with a sorted-list and a multiset-of-entries model; bounded queues against "
                "the top-maxlen rule. Traversals are interleaved with look-ups and with each other; empty containers are traversed and refilled.", note="Preconditions of method.py's callers respected (distinct interior "
                "coordinates, true right-neighbour hints, no NaN priorities). Characteristics are also changed by tiny relative steps (1e-16..1e-4).", ref="3/C19"),
    "C20": dict(cat="exploration", tech="property-based testing (Hypothesis) with a grid-membership oracle and a "
                "metamorphic relation on the density parameter",
                text="Every evaluation point of generated runs (density 2..12, N=2..5, arbitrary boxes) must be a "
                "cell centre of the configured density; a centre of one density is never a centre of another. eps is drawn above and below the cell size. Parameters may be assigned after construction, the same box handed again through SetBounds, a transient objective failure injected. The solver may be re-targeted to a fractional sub-box through its own evolvent (integer-typed constructor bounds included).",
                note="Tolerance 1e-6 cell.", ref="3/C20"),
}

ORDER = ["C%02d" % i for i in range(1, 21)]


def main():
    props = [json.loads(l) for l in open(os.path.join(HERE, "properties.jsonl"))]
    ids = [p["id"] for p in props]
    checks = []
    sys.path.insert(0, HERE)
    from vlib.runner import PROPS
    built = {pid for pid, mod in PROPS.items() if os.path.exists(os.path.join(HERE, "props", mod + ".py"))}
    for pid in ORDER:
        if pid not in CHECKS or pid not in built:
            continue
        c = CHECKS[pid]
        checks.append({
            "property_id": pid,
            "quick_cmd": "./check %s --tier quick" % pid,
            "thorough_cmd": "./check %s --tier thorough" % pid,
            "evidence_file": "evidence/%s.json" % pid,
            "replay_cmd_template": "./check %s --replay {path}" % pid,
            "engine": "vlib",
            "level_claimed": {"category": c["cat"], "text": c["text"], "design_ref": "DESIGN.md section " + c["ref"]},
            "level_note": c["note"],
            "technique": c["tech"],
        })
    na = [{"property_id": pid, "reason": "check not built yet (work in progress; the design covers it with "
           "property-based testing, see DESIGN.md section 3)"} for pid in ids if pid not in built]
    man = {
        "version": 1,
        "setup_cmd": "sh ./setup.sh",
        "hooks": {
            "guard": "UNN_ITMM_SOFTWARE_IOPT_VERIF",
            "enable": "no source hooks are needed: every observable is public API (Problem.Calculate log, "
                      "listener callbacks, SearchDataItem getters, Solution fields, stdout); checks import iOpt "
                      "from /repo's working tree via PYTHONPATH",
            "baseline_off_cmd": "cd /repo && /venv/bin/python -m pytest -ra -q -p no:cacheprovider --timeout=900 "
                                "--continue-on-collection-errors",
            "source_commits": [],
            "add_only": True,
        },
        "engines": [{"name": "vlib", "path": "vlib/", "serves_properties": [c["property_id"] for c in checks],
                     "kind_free_text": "Hypothesis 6.168 property-based / stateful testing + exhaustive "
                     "enumeration of small finite scopes, sharded over 16 processes; thorough tier adds coverage-guided atheris/libFuzzer shards that drive the same Hypothesis generators and oracles; oracles are reference "
                     "models, round trips, differential and metamorphic relations"}],
        "checks": checks,
        "notes": "Run as ./check <ID> [--tier quick|thorough] [--replay FILE]; VERIF_SEED selects the generator "
                 "seed, VERIF_REPO (default /repo) the tree under test. Exit 0 held / 1 VIOLATION / 2 harness "
                 "error. Repairs of genuine defects are the 'fix:' commits in /repo listed in known_findings.txt.",
        "not_applicable": na,
    }
    with open(os.path.join(HERE, "MANIFEST.json"), "w") as f:
        json.dump(man, f, indent=1)
        f.write("\n")
    try:
        import jsonschema
        jsonschema.validate(man, json.load(open("/root/.vp/MANIFEST.schema.json")))
        print("MANIFEST.json valid;", len(checks), "checks,", len(na), "not yet claimed")
    except ImportError:
        print("written (jsonschema not available)")


if __name__ == "__main__":
    sys.exit(main())
