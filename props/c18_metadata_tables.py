"""C18 - problem metadata is well-formed and the published tables agree with the functions."""
import numpy as np

from vlib import bench
from vlib.runner import fail, Violation

LEVEL = "exploration"
RULE = ("Enumeration, no sampling: (a) EVERY constructor argument of every shipped family (Hill 0..999, Shekel "
        "0..999, Grishagin 1..100, GKLS 2..5 x 1..100, Shekel4 1..3, Rastrigin and XSquared dimension 1..12, "
        "StronginC3 = 2427 instances) is constructed and its metadata checked, and the metadata arrays of a second instance of the same member are "
        "overwritten in place (box narrowed, variable renamed, optimum record moved): the first instance and a third, "
        "newly built one must still declare what the first declared; (b) EVERY row of the 2 x 1000 Hill / "
        "Shekel tables x {minimum, maximum, Lipschitz constant} is recomputed from the function on a uniform grid "
        "(quick 1e6, thorough 4e6 points) with bounded Brent polishing of every grid-local extremum, the vectorised "
        "formula being cross-checked against the real Calculate on pseudo-random points of the same run. "
        "Non-trivial: table rows whose second-best extremum lies within 5% of the value range of the best (where a "
        "slip in the table would still look plausible) and instances with dimension >= 2. Distinct by construction.")
ASSUMPTIONS = [
    "values within 1e-4, locations within 1e-4 of the range of SOME extremiser whose value is within 1e-4 of the "
    "best (a genuine tie cannot raise an alarm), Lipschitz constants within 0.1%",
    "vectorised Hill/Shekel formulas agree with the real Calculate within 1e-9 on the cross-check points",
    "the cross-check points come from a counter-based generator seeded by VERIF_SEED (no other randomness)",
]
EXHAUSTIVE_SCOPE = {"quick": "all 2427 instances; all 2 x 1000 x 3 table entries",
                    "thorough": "all 2427 instances; all 2 x 1000 x 3 table entries (4e6-point grid)"}
NONTRIVIAL_FLOOR = {"quick": 500, "thorough": 500}
GRID = {"quick": 1_000_001, "thorough": 4_000_001}


_GRIDS = {}


def hill_grid(npts):
    """Built once in the parent (plan) and inherited copy-on-write by the forked shards."""
    if npts not in _GRIDS:
        _GRIDS.clear()
        _GRIDS[npts] = bench.HillGrid(npts)
    return _GRIDS[npts]


def plan(tier):
    hill_grid(GRID[tier])
    return [("metadata", 16, 0), ("tables", 16, 0)]


def all_instances():
    out = []
    for fam, args in bench.FAMILIES.items():
        for a in args:
            out.append((fam, a))
    return out


ELDERS = (("rastrigin", 12), ("xsquared", 12), ("gkls", (5, 1)))     # larger members of the sized families


def check_metadata(fam, arg, elders=()):
    kept = [bench.construct(f, a) for f, a in elders]      # built first and kept alive: a construction history
    p = bench.construct(fam, arg)
    who = "%s(%r)%s: " % (fam, arg, " built after %r" % (list(elders),) if elders else "")
    n = p.numberOfFloatVariables
    dim = getattr(p, "dimension", n)
    if not isinstance(n, (int, np.integer)) or n < 1:
        fail(who + "numberOfFloatVariables=%r" % (n,))
    if dim != n:
        fail(who + "dimension=%r but numberOfFloatVariables=%r" % (dim, n))
    for name in ("floatVariableNames", "lowerBoundOfFloatVariables", "upperBoundOfFloatVariables"):
        if len(getattr(p, name)) != n:
            fail(who + "len(%s)=%d but the declared dimension is %d" % (name, len(getattr(p, name)), n))
    lo, hi = bench.bounds(p)
    for a, b in zip(lo, hi):
        if not (a < b) or not np.isfinite(a) or not np.isfinite(b):
            fail(who + "bounds %r, %r are not lower < upper" % (a, b))
    if p.numberOfObjectives != 1:
        fail(who + "numberOfObjectives=%r, expected exactly one objective" % (p.numberOfObjectives,))
    if p.numberOfDisreteVariables != 0 or len(p.discreteVariableNames) != 0:
        fail(who + "declares discrete variables")
    if len(p.knownOptimum) < 1:
        fail(who + "no known optimum declared")
    pt, val = bench.declared(p)
    if len(pt) != n:
        fail(who + "known optimum point %r has the wrong dimension" % (pt,))
    if not np.isfinite(val):
        fail(who + "known optimum value %r" % (val,))
    for v, a, b in zip(pt, lo, hi):
        if not (a <= v <= b):
            fail(who + "known optimum point %r lies outside the box [%r, %r]" % (pt, lo, hi))
    return n


def snapshot(p):
    pt, val = bench.declared(p)
    lo, hi = bench.bounds(p)
    return (int(p.numberOfFloatVariables), [str(v) for v in p.floatVariableNames], lo, hi, pt, val)


def scribble(container, k, value):
    """Overwrite element k of a metadata container in place, if the container allows it."""
    try:
        container[k] = value
        return True
    except (TypeError, ValueError, IndexError):
        return False


def check_independence(fam, arg):
    """Every instance owns its metadata: whatever a user does to the arrays of one instance (narrowing its box in
    place, renaming a variable, moving its optimum record) must leave the declarations of the instances built
    before and after it well-formed and unchanged."""
    who = "%s(%r): " % (fam, arg)
    first = bench.construct(fam, arg)
    want = snapshot(first)
    victim = bench.construct(fam, arg)
    lo, hi = bench.bounds(victim)
    w = hi[0] - lo[0]
    done = []
    done.append(scribble(victim.lowerBoundOfFloatVariables, 0, lo[0] + 0.375 * w))
    done.append(scribble(victim.upperBoundOfFloatVariables, 0, hi[0] - 0.375 * w))
    done.append(scribble(victim.floatVariableNames, 0, "zz"))
    done.append(scribble(victim.knownOptimum[0].point.floatVariables, 0, lo[0] - w))
    victim.knownOptimum[0].functionValues[0].value = 12345.0
    if snapshot(first) != want:
        fail(who + "writing into the metadata arrays of one instance changed an instance built before it: %r -> %r" %
             (want, snapshot(first)))
    # the first instance is now USED: a short refining solve and preimage queries on its optimum record - using a
    # problem must not change what it declares
    if fam != "stronginC3":
        import contextlib
        import io
        from iOpt.solver import Solver
        from iOpt.solver_parametrs import SolverParameters
        with contextlib.redirect_stdout(io.StringIO()):
            sv = Solver(first, SolverParameters(r=3.0, eps=0.01, itersLimit=8, refineSolution=True))
            sv.Solve()
            sv.evolvent.GetPreimages(first.knownOptimum[0].point.floatVariables)
            sv.evolvent.GetInverseImage(first.knownOptimum[0].point.floatVariables)
        if snapshot(first) != want:
            fail(who + "after the instance was handed to a Solver (8 trials, refineSolution=True) and its optimum record "
                 "to the solver's evolvent, it declares %r instead of %r" % (snapshot(first), want))
    later = bench.construct(fam, arg)
    if snapshot(later) != want:
        fail(who + "after the metadata arrays of one instance were written to, a newly built instance declares "
             "%r instead of %r" % (snapshot(later), want))
    return any(done)


def metadata(ctx):
    ctx.exhaustive = True
    inst = all_instances()
    for k, (fam, arg) in enumerate(inst):
        if k % ctx.nshards != ctx.shard:
            continue
        try:
            n = _guard(check_metadata, fam, arg)
            if fam != "grishagin" or arg % 10 == 1 or ctx.tier == "thorough":    # Grishagin construction is slow
                _guard(check_independence, fam, arg)
            if fam in ("rastrigin", "xsquared", "gkls", "shekel4", "stronginC3"):
                _guard(check_metadata, fam, arg, ELDERS)     # the same record after larger instances were built
        except Violation as v:
            ctx.violation({"family": fam, "arg": arg}, str(v))
            continue
        ctx.record({"family": fam, "arg": arg}, n >= 2, ["metadata:" + fam],
                   sample={"family": fam, "arg": arg, "dimension": int(n)})


def _guard(fn, *a):
    from vlib.runner import guarded
    return guarded(lambda _c: fn(*a), None)


def counter_points(seed, k, lo, hi, n=5):
    """Deterministic pseudo-random points (Weyl sequence), no RNG state."""
    out = []
    for j in range(n):
        u = ((seed * 0.6180339887498949 + k * 0.7548776662466927 + (j + 1) * 0.5698402909980532) % 1.0)
        out.append(lo + u * (hi - lo))
    return out


def check_row(kind, grid, fn, seed, tables):
    """kind in hill/shekel; returns (nontrivial, info)."""
    who = "%s table row %d: " % (kind, fn)
    lo, hi = float(grid.x[0]), float(grid.x[-1])
    rng = hi - lo
    # cross-check the vectorised formula against the real Calculate; if the code no longer is that formula
    # the row is checked with the real Calculate only (coarse grid + Brent polishing on the real code)
    prob = bench.construct(kind, fn)
    # the function itself (real Calculate) at the published extremiser locations and at the two ends of the box
    for which, tab in (("min", tables["min"]), ("max", tables["max"])):
        tval, tloc = float(tab[fn][0]), float(tab[fn][1])
        # (through a value holder that already holds another value: the caller may re-use one FunctionValue)
        got = bench.real_eval(prob, [min(max(tloc, lo), hi)], dirty=(-7.5 if which == "min" else tval + 3.25))
        if not (abs(got - tval) <= 1e-4 + float(tables["lip"][fn]) * 1e-4 * rng):
            # (the location may be off by 1e-4 of the range: allow the table's own Lipschitz constant times that)
            fail(who + "the function takes the value %r at the published %simum location %r, the table says %r" %
                 (got, which, tloc, tval))
    for end in (lo, hi):
        got = bench.real_eval(prob, [end])
        want = float(grid.f_at(fn, end)[0])
        if not (abs(got - want) <= 1e-9 * (1 + abs(want))):
            fail(who + "at the end point %r of the box the function takes the value %r, its formula gives %r" %
                 (end, got, want))
    if not bench.agrees_1d(grid, prob, fn, counter_points(seed, fn, lo, hi)):
        grid = bench.RealGrid(kind)
    v = grid.f(fn)
    nontrivial = False
    for which, tab in (("min", tables["min"]), ("max", tables["max"])):
        idx = bench.local_extrema_1d(grid.x, v, which)
        vals = v[idx]
        best = vals.min() if which == "min" else vals.max()
        span = float(v.max() - v.min())
        close = idx[np.abs(vals - best) <= 2e-4]
        pol = [bench.polish_1d(lambda t: grid.f_at(fn, t), grid.x, int(i), which) for i in close]
        bval = min(p[0] for p in pol) if which == "min" else max(p[0] for p in pol)
        tval, tloc = float(tab[fn][0]), float(tab[fn][1])
        if abs(tval - bval) > 1e-4:
            fail(who + "published %simum value %r but the function's %simum over [%g, %g] is %r (at %r)" %
                 (which, tval, which, lo, hi, bval, [p[1] for p in pol if p[0] == bval][0]))
        ok = [p for p in pol if abs(p[0] - bval) <= 1e-4 and abs(p[1] - tloc) <= 1e-4 * rng]
        if not ok:
            fail(who + "published %simum location %r but the %simisers are at %r" %
                 (which, tloc, which, sorted(p[1] for p in pol if abs(p[0] - bval) <= 1e-4)))
        others = vals[np.abs(vals - best) > 2e-4]
        if len(others):
            second = others.min() if which == "min" else others.max()
            if abs(second - best) <= 0.05 * span:
                nontrivial = True
    d = np.abs(grid.df(fn))
    i = int(d.argmax())
    lval, _ = bench.polish_1d(lambda t: np.abs(grid.df_at(fn, t)), grid.x, i, "max")
    tl = float(tables["lip"][fn])
    if abs(tl - lval) > 1e-3 * lval:
        fail(who + "published Lipschitz constant %r but max|f'| is %r" % (tl, lval))
    return nontrivial, bool(getattr(grid, "real", False))


def tables(ctx):
    ctx.exhaustive = True
    import iOpt.problems.Hill.hill_generation as hg
    import iOpt.problems.Shekel.shekel_generation as sg
    npts = GRID[ctx.tier]
    for kind, mk, tabs in (("hill", bench.HillGrid, {"min": hg.minHill, "max": hg.maxHill, "lip": hg.lConstantHill}),
                           ("shekel", bench.ShekelGrid, {"min": sg.minShekel, "max": sg.maxHill,
                                                         "lip": sg.lConstantHill})):
        for name, t in tabs.items():
            if len(t) != 1000:
                ctx.violation({"kind": kind, "fn": -1}, "%s %s table has %d rows, expected 1000" % (kind, name, len(t)))
                return
        grid = hill_grid(npts) if kind == "hill" else mk(npts)
        for fn in range(ctx.shard, 1000, ctx.nshards):
            try:
                nt, real = _guard(check_row, kind, grid, fn, ctx.seed, tabs)
            except Violation as v:
                ctx.violation({"kind": kind, "fn": fn}, str(v))
                continue
            ctx.count(3, ["table-entries:" + kind] + (["real-code-fallback:" + kind] if real else []),
                      nontrivial=3 if nt else 0)
            if fn < 16:
                ctx.record({"kind": kind, "fn": fn, "min": [float(x) for x in tabs["min"][fn]],
                            "max": [float(x) for x in tabs["max"][fn]], "lip": float(tabs["lip"][fn])}, False, [])
                ctx.evaluations -= 1


SUBCHECKS = {"metadata": metadata, "tables": tables}


def replay(kind, case):
    if kind == "metadata":
        check_independence(case["family"], tuple(case["arg"]) if isinstance(case["arg"], list) else case["arg"])
        arg = case["arg"]
        check_metadata(case["family"], tuple(arg) if isinstance(arg, list) else arg)
        check_metadata(case["family"], tuple(arg) if isinstance(arg, list) else arg, ELDERS)
    else:
        import iOpt.problems.Hill.hill_generation as hg
        import iOpt.problems.Shekel.shekel_generation as sg
        if case["kind"] == "hill":
            check_row("hill", bench.HillGrid(GRID["quick"]), case["fn"], 1,
                      {"min": hg.minHill, "max": hg.maxHill, "lip": hg.lConstantHill})
        else:
            check_row("shekel", bench.ShekelGrid(GRID["quick"]), case["fn"], 1,
                      {"min": sg.minShekel, "max": sg.maxHill, "lip": sg.lConstantHill})
