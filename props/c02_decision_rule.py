"""C02 - every trial is placed by the AGP decision rule computed from all previous trials."""
from hypothesis import strategies as st

from vlib import gen
from vlib.agp import Run, replay_history
from vlib.runner import fail, hyp_run

LEVEL = "exploration"
RULE = ("Hypothesis-generated (dimension 1..5, box, objective recipe incl. constant/step/quantised "
        "families, r, eps, itersLimit<=400, drive = Solve, DoGlobalIteration batches within the budget, or "
        "batches that continue the search for 50..500 trials past a small itersLimit with an optional Solve in "
        "between); oracle = "
        "independent AGP model replaying the observed history, every prefix checked. Non-trivial: >=5 "
        "trials and, after the third trial, at least one iteration where M grew and one where the best "
        "value improved (the two recalculation paths). Distinct = distinct case digest.")
ASSUMPTIONS = [
    "history is taken from the SearchDataItem objects handed to Listener.OnEndIteration (GetX/GetZ) and "
    "cross-checked against the Problem.Calculate log",
    "characteristic comparison tolerance 1e-9*(1+max|R|): exact ties and near-ties accept any maximal interval",
    "new-point tolerance 1e-12 + 1e-9*(x_r-x_l)",
    "objective values below 1e6 in magnitude; box |bound| <= 1e5*width; eps >= 1e-6 (N=1) or "
    "max(2^(1-m), 1e-12/N) (N>=2); a run that ends in the method's own 'x is outside of interval' error is "
    "accepted only if the model's float midpoint rule also returns an end point (float resolution exhausted)",
]
NONTRIVIAL_FLOOR = {"quick": 100, "thorough": 1000}


# thorough tier: coverage-guided (atheris) drive of the same generator and oracle: kind -> (shards, cases per shard)
FUZZ = {"generated": (8, 1500)}


def plan(tier):
    total = 2000 if tier == "quick" else 40000
    return [("generated", 16, total // 16)]


@st.composite
def cases(draw):
    recipe = draw(gen.problem_recipe(densities=(10, 10, 10, 6, 12), styles=True, offsets=True, huge=True))
    iters = st.one_of(st.sampled_from([1, 2, 3, 30, 100, 200, 400, 400]), st.integers(5, 400))
    params = draw(gen.solver_params(recipe["n"], recipe["density"], iters, cheap=False))
    sp = draw(gen.start_points(recipe))
    if sp is not None:
        params = dict(params, startPoint=sp)      # the first trial is the image of x=0.5 whatever the start point
    mode = draw(st.sampled_from(["solve", "solve", "solve", "batches", "batches", "continue"]))
    if draw(st.integers(0, 49)) == 0:
        # a long run (1000-3000 trials): the smallest eps the float arithmetic allows, budget-stopped
        params = dict(params, eps=gen.eps_min(recipe["n"], recipe["density"]),
                      itersLimit=draw(st.sampled_from([1000, 2000, 3000])))
        mode = "solve"
    if mode == "solve":
        drive = "solve"
    elif mode == "batches":
        total = draw(st.integers(1, max(1, min(params["itersLimit"], 200))))
        drive = draw(gen.compositions(total))
    else:
        # the search is continued past its budget: DoGlobalIteration ignores itersLimit, so a solver built with a
        # small limit can be driven for hundreds of further trials (optionally with a Solve in between, which
        # must not add trials once the budget is reached)
        params = dict(params, itersLimit=draw(st.sampled_from([1, 2, 3, 5, 10, 20, 30, 60, 100])))
        total = draw(st.sampled_from([50, 150, 300, 500]))
        drive = draw(gen.compositions(total, max_parts=5))
        if draw(st.booleans()):
            drive.insert(draw(st.integers(0, len(drive))), "solve")
        if draw(st.integers(0, 2)) == 0:
            # a local refinement in the middle of the search (Solver.DoLocalRefinement is public): it rewrites the
            # reported optimum, the global search that follows must still be decided by the trials alone
            drive.insert(draw(st.integers(1, len(drive))), "refine")
    case = {"recipe": recipe, "params": params, "drive": drive}
    if drive != "solve" and "refine" not in drive and draw(st.integers(0, 3)) == 0:
        # a transient fault: the objective raises once, at its k-th call; the caller catches it and goes on (single
        # iterations, so that every completed trial is reported) - the decision rule holds for the completed trials
        case["fault_at"] = draw(st.integers(2, 40))
    return case


def fresh_evolvent(run):
    from iOpt.evolvent.evolvent import Evolvent
    return Evolvent(run.recipe["lower"], run.recipe["upper"], run.n, run.density())


def do_refine(run):
    import contextlib
    a = len(run.problem.log)
    with contextlib.redirect_stdout(run.out):
        run.solver.DoLocalRefinement(5)
    run.local = getattr(run, "local", []) + [(a, len(run.problem.log))]


def cross_check_log(run, hist):
    local = getattr(run, "local", [])
    log = [e for i, e in enumerate(run.problem.log) if not any(a <= i < b for a, b in local)]
    if len(log) != len(hist):
        fail("listener delivered %d trials but the objective was evaluated %d times" % (len(hist), len(log)))
    ev = fresh_evolvent(run)
    for k, ((x, z), (_, y, val)) in enumerate(zip(hist, log)):
        if z != val:
            fail("trial %d: stored value %r differs from the objective value %r at its point" % (k + 1, z, val))
        img = tuple(float(v) for v in ev.GetImage(x))
        if img != y:
            fail("trial %d: evaluated point %r is not the evolvent image %r of x=%r" % (k + 1, y, img, x))


def drive_run(case):
    """Returns (run, hist, degenerate_flag)."""
    run = Run(case["recipe"], case["params"])
    run.line_guard = bool(case["recipe"].get("huge"))
    if case["drive"] == "solve":
        run.solve()
        return run, run.history(), ("Exception was thrown" in run.stdout())
    if case.get("fault_at"):
        from vlib.objectives import ObjectiveFailure
        run.problem.fail_at = case["fault_at"]
        for k in case["drive"]:
            if k == "solve":
                run.solve()              # swallows the fault, if it happens here, and returns
                if "Exception was thrown" in run.stdout() and run.problem.calls < run.problem.fail_at:
                    return run, run.history(), True
                continue
            for _ in range(k):
                try:
                    run.step(1)
                except ObjectiveFailure:
                    pass
                except Exception as e:
                    if "outside of interval" not in str(e):
                        raise
                    return run, run.history(), True
        return run, run.history(), False
    try:
        for k in case["drive"]:
            if k == "solve":
                run.solve()
                if "Exception was thrown" in run.stdout():
                    return run, run.history(), True
            elif k == "refine":
                do_refine(run)
            else:
                run.step(k)
        return run, run.history(), False
    except Exception as e:
        if "outside of interval" not in str(e):
            raise
    # the batch was cut short by the method's own error: redo with single steps to see every trial
    run = Run(case["recipe"], case["params"])
    try:
        for k in case["drive"]:
            if k == "solve":
                run.solve()
                if "Exception was thrown" in run.stdout():
                    return run, run.history(), True
                continue
            if k == "refine":
                do_refine(run)
                continue
            for _ in range(k):
                run.step(1)
    except Exception as e:
        if "outside of interval" not in str(e):
            raise
        return run, run.history(), True
    fail("DoGlobalIteration batches %r raised 'x is outside of interval' but single steps did not" %
         (case["drive"],))


def body(case):
    run, hist, errored = drive_run(case)
    cross_check_log(run, hist)
    n, r = run.n, case["params"]["r"]
    model, info = replay_history(n, r, hist, check_rule=True)
    over = case["drive"] != "solve" and len(hist) > case["params"]["itersLimit"]
    refined = case["drive"] != "solve" and "refine" in case["drive"]
    classes = ["N=%d" % n, "drive=%s" % ("solve" if case["drive"] == "solve" else
                                       ("continued-past-budget" if over else "batches")),
               "family=%s" % case["recipe"]["obj"]["family"]] + (["refined-mid-search"] if refined else []) + \
        (["transient-objective-fault"] if case.get("fault_at") and run.problem.calls >= case["fault_at"] else [])
    if case["recipe"].get("huge"):
        classes.append("values-of-magnitude-1e150-and-more")
    if errored:
        if not model.next_is_degenerate():
            fail("the method stopped with an internal exception after %d trials although the decision rule "
                 "yields a point strictly inside the chosen interval" % len(hist))
        classes.append("float-resolution-stop")
    late = info[3:]
    grew = any(i["grew"] for i in late)
    improved = any(i["improved"] for i in late)
    ties = any(i["tie"] for i in info[1:])
    if ties:
        classes.append("exact-ties")
    if grew:
        classes.append("M-grew")
    if improved:
        classes.append("best-improved")
    classes.append("trials<5" if len(hist) < 5 else ("trials<50" if len(hist) < 50 else
                                                      ("trials>=1000" if len(hist) >= 1000 else "trials>=50")))
    nontrivial = len(hist) >= 5 and grew and improved
    sample = {"case": case, "trials": len(hist), "first_x": [h[0] for h in hist[:6]]}
    return nontrivial, classes, sample


def generated(ctx):
    hyp_run(ctx, cases(), body, ctx.budget)


SUBCHECKS = {"generated": generated}


def replay(kind, case):
    body(case)
