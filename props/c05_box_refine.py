"""C05 - all evaluations and the result stay inside the box; refinement never worsens."""
from hypothesis import strategies as st

from vlib import gen
from vlib.agp import Run, best_of
from vlib.runner import fail, hyp_run

LEVEL = "exploration"
RULE_EXTRA = (" A fifth of the cases request the refinement explicitly: DoGlobalIteration(n) followed by "
              "DoLocalRefinement(k), k in {0,1,2,5,20,-1}, once or twice. User problems may return a new value holder or numpy "
              "scalars, and the objective may carry a level of +-1e2..1e7. The explicit form may go on with more global "
              "iterations and another refinement; another solver may be run in the process before the result is read; a "
              "sixth of the boxes are integer-valued and handed over as Python int lists or integer arrays.")
RULE = ("[containment exact; one case in eight is a 1-D search pushed to the float resolution next to a face of the box] "
        "Hypothesis-generated objectives whose unconstrained minimum lies outside or on the boundary of the box "
        "(linear, bowls with outside vertex, absolute sums with the kink on a face) plus the general families; "
        "N=1..5; boxes incl. far-from-origin and thin ones; refineSolution in {False,True}; itersLimit from 1 up "
        "(Nelder-Mead's maxiter is 0.05*itersLimit). Oracle: every logged evaluation point and the returned point "
        "lie in [lower-t, upper+t]; with refinement the returned value <= best global-phase value and equals the "
        "objective at the returned point. Non-trivial: refinement on and the unconstrained descent direction "
        "leaves the box. Distinct = distinct case digest.")
RULE = RULE + RULE_EXTRA
ASSUMPTIONS = [
    "containment is exact: lower <= y <= upper in every coordinate, no tolerance",
    "global-phase evaluations = the first numberOfGlobalTrials entries of the Calculate log",
]
NONTRIVIAL_FLOOR = {"quick": 150, "thorough": 1500}

OUTSIDE = ("linear", "bowl", "absum")


def plan(tier):
    total = 2000 if tier == "quick" else 40000
    return [("generated", 16, total // 16)]


@st.composite
def cases(draw):
    if draw(st.integers(0, 3)) > 0:
        recipe = draw(gen.problem_recipe(families=OUTSIDE, densities=(10, 10, 6, 12), styles=True, offsets=True))
    else:
        recipe = draw(gen.problem_recipe(densities=(10, 10, 6, 12), styles=True, offsets=True))
    if draw(st.integers(0, 5)) == 0:
        # an integer-valued box handed over as Python int lists or an integer array (as GKLS writes its bounds)
        recipe = draw(gen.int_box_recipe(dims=(1, 2, 3, 4, 5), densities=(10, 6, 12), families=OUTSIDE))
    iters = st.one_of(st.sampled_from([1, 2, 3, 20, 40, 100, 400, 2000]), st.integers(5, 400))
    params = draw(gen.solver_params(recipe["n"], recipe["density"], iters, cheap=True))
    if draw(st.integers(0, 7)) == 0:
        # the search is pushed to the float resolution next to a face of the box: a 1-D objective that decreases
        # towards one end, eps far below the spacing of doubles (two-decimal bounds in half of the cases: the rounded
        # width and midpoint of such boxes are the ones that carry an unclipped image across the face)
        if draw(st.booleans()):
            a = draw(st.integers(-300, 300)) / 100.0
            box = {"lower": [a], "upper": [a + draw(st.integers(1, 300)) / 100.0]}
        else:
            box = draw(gen.boxes(1))
        c = draw(st.sampled_from([1.0, -1.0])) * draw(st.floats(0.1, 10.0))
        recipe = {"n": 1, "lower": box["lower"], "upper": box["upper"], "density": 10,
                  "obj": {"family": "linear", "c": [c]}}
        params = {"r": draw(gen.r_values), "eps": float(10.0 ** -draw(st.integers(17, 300))),
                  "itersLimit": draw(st.sampled_from([120, 200, 400]))}
    sp = draw(gen.start_points(recipe, outside=True))
    if sp is not None:
        params = dict(params, startPoint=sp)      # a start point, possibly outside the box: nothing is evaluated there
    case = {"recipe": recipe, "params": params, "refine": draw(st.integers(0, 3)) > 0}
    if draw(st.integers(0, 4)) == 0:
        # the refinement is requested explicitly (Solver.DoLocalRefinement(k), k = -1 means 5 % of itersLimit) after a
        # few global iterations, possibly twice
        case["explicit"] = {"steps": draw(st.integers(1, min(40, max(1, params["itersLimit"])))),
                            "k": draw(st.sampled_from([0, 1, 1, 2, 5, 20, -1])), "twice": draw(st.booleans()),
                            # ... more global iterations, then another refinement
                            "more": draw(st.sampled_from([0, 0, 5, 20, 60])),
                            "k2": draw(st.sampled_from([1, 5, 20, -1]))}
        case["refine"] = True
    if draw(st.integers(0, 3)) == 0:
        # another solver runs in the same process after this one has returned its result
        case["decoy"] = draw(gen.problem_recipe(dims=(1, 2, 3)))
    return case


def leaves_box(obj):
    fam = obj["family"]
    if fam == "linear":
        return any(c != 0 for c in obj["c"])
    if fam == "bowl":
        return any(p <= 0.0 or p >= 1.0 for p in obj["p"])
    if fam == "absum":
        return any((p == 0.0 or p == 1.0) and a > 0 for a, p in zip(obj["a"], obj["p"]))
    return False


def body(case):
    recipe = case["recipe"]
    ex = case.get("explicit")
    if ex:
        import contextlib
        run = Run(recipe, case["params"], refine=False)
        refused = False
        try:
            run.step(ex["steps"])
        except Exception as e:
            if "outside of interval" not in str(e):
                raise
            refused = True      # the method refused an interval it cannot subdivide; the evaluations made are judged
        with contextlib.redirect_stdout(run.out):
            for _ in range(2 if ex["twice"] else 1):
                run.solver.DoLocalRefinement(ex["k"])
        if ex.get("more") and not refused:
            try:
                run.step(ex["more"])
            except Exception as e:
                if "outside of interval" not in str(e):
                    raise
            with contextlib.redirect_stdout(run.out):
                run.solver.DoLocalRefinement(ex["k2"])
        sol = run.results()
    else:
        run = Run(recipe, case["params"], refine=case["refine"])
        run.line_guard = case["params"]["eps"] < 1e-12
        sol = run.solve()
    if case.get("decoy") is not None:
        decoy = Run(case["decoy"], {"r": 2.5, "eps": 1e-2, "itersLimit": 30}, record=False)
        decoy.solve()
    lo, hi = recipe["lower"], recipe["upper"]

    def inside(y):
        return all(a <= v <= b for v, a, b in zip(y, lo, hi))

    nglob = sol.numberOfGlobalTrials
    log = run.problem.log
    for k, (_, y, _) in enumerate(log):
        if not inside(y):
            phase = "global" if k < nglob else "local refinement"
            fail("evaluation %d (%s phase) at %r is outside the box [%r, %r]" % (k + 1, phase, y, lo, hi))
    pt, val = best_of(sol)
    if not inside(pt):
        fail("returned solution point %r is outside the box [%r, %r]" % (pt, lo, hi))
    if len(pt) != run.n:
        fail("returned solution point %r has the wrong dimension" % (pt,))
    if case["refine"]:
        if nglob > len(log) or nglob < 1:
            fail("numberOfGlobalTrials=%r inconsistent with %d logged evaluations" % (nglob, len(log)))
        if ex and ex.get("more"):
            # global and local evaluations alternate: every evaluation made so far counts ("never worse than the
            # best global-phase trial" a fortiori: not worse than the best global trial among them)
            # global trials = the evaluations at the evolvent images of the stored curve coordinates
            from iOpt.evolvent.evolvent import Evolvent
            ev = Evolvent(recipe["lower"], recipe["upper"], run.n, run.density())
            images = {tuple(float(c) for c in ev.GetImage(it.GetX())) for it in list(run.solver.searchData)[1:-1]}
            gl = [v for _, y, v in log if y in images]
            gbest = min(gl) if gl else min(v for _, _, v in log)
        else:
            gbest = min(v for _, _, v in log[:nglob])
        if val > gbest:
            fail("refinement returned value %r worse than the best global-phase trial %r" % (val, gbest))
        re = run.problem.value_at(pt)
        if re != val:
            fail("refinement reports value %r but the objective at the returned point %r is %r" % (val, pt, re))
    out = leaves_box(recipe["obj"])
    classes = ["N=%d" % run.n, "refine=%s" % case["refine"], "family=" + recipe["obj"]["family"],
               "explicit-DoLocalRefinement" if ex else "via-Solve",
               "startPoint" if case["params"].get("startPoint") else "no-startPoint",
               "int-typed-bounds" if (recipe.get("style") or {}).get("bounds") else "float-bounds",
               "decoy-solver" if case.get("decoy") is not None else "no-decoy",
               "descent-leaves-box=%s" % out,
               "float-resolution-at-a-face" if case["params"]["eps"] < 1e-12 else "ordinary-eps", "local-evals>0" if len(log) > nglob else "local-evals=0"]
    return (case["refine"] and out), classes, {"case": case, "global": nglob, "local": len(log) - nglob}


def generated(ctx):
    hyp_run(ctx, cases(), body, ctx.budget)


SUBCHECKS = {"generated": generated}


def replay(kind, case):
    body(case)
