"""C15 - benchmark evaluation is a pure function of the point."""
import numpy as np
from hypothesis import strategies as st
from hypothesis.stateful import RuleBasedStateMachine, rule, precondition

from vlib import bench
from vlib.runner import fail, machine_run, MachineMixin

LEVEL = "exploration"
RULE = ("Hypothesis RuleBasedStateMachine: rules construct(family, member) (pool of up to 8 live instances, siblings "
        "of the same member allowed; families Hill, Shekel, Grishagin, GKLS, Shekel4, Rastrigin, XSquared, "
        "StronginC3) and evaluate(instance, point) with points drawn uniformly in the box, on faces and corners, at "
        "the declared optimum, inside GKLS balls and from previously used points, supplied as a new ndarray or list or (one evaluation in three) through ONE container and Point per instance "
        "that is overwritten in place between evaluations (optionally with a value holder that still holds an earlier "
        "value), the value then being compared with the same point in a new array; points within 1e-9 of the side of an "
        "earlier point are compared with a brand-new instance of the member; a rule adds further instances of a member; "
        "Rastrigin and XSquared in dimensions 1..16; for StronginC3 also the three constraint functions. Oracle: dictionary (family, member, function id, point "
        "bytes) -> first value seen; every later evaluation on any instance of that member must return the "
        "bit-identical value, leave the point unchanged and return the supplied holder with the value stored. "
        "Non-trivial: a point re-evaluated after at least one construction and one evaluation of a different "
        "instance happened in between. Distinct = distinct rule sequence.")
ASSUMPTIONS = [
    "the first value seen for a (member, function, point) is the reference; absolute correctness of values is "
    "C10/C14/C18's business",
    "Grishagin members are limited to a pool of 12 numbers per run to bound construction cost",
]
NONTRIVIAL_FLOOR = {"quick": 100, "thorough": 1000}
NP_ERR = dict(np.geterr())


def plan(tier):
    return [("machine", 16, (480 if tier == "quick" else 9600) // 16)]


members = st.one_of(
    st.tuples(st.just("hill"), st.integers(0, 999)),
    st.tuples(st.just("shekel"), st.integers(0, 999)),
    st.tuples(st.just("gkls"), st.tuples(st.integers(2, 5), st.integers(1, 100))),
    st.tuples(st.just("gkls"), st.tuples(st.integers(2, 3), st.integers(1, 3))),
    st.tuples(st.just("grishagin"), st.sampled_from([1, 2, 3, 4, 17, 33, 54, 55, 70, 99, 100, 42])),
    st.tuples(st.just("shekel4"), st.integers(1, 3)),
    st.tuples(st.just("rastrigin"), st.one_of(st.integers(1, 6), st.integers(7, 16))),
    st.tuples(st.just("xsquared"), st.one_of(st.integers(1, 6), st.integers(7, 16))),
    st.tuples(st.just("stronginC3"), st.none()),
)

unit = st.one_of(st.sampled_from([0.0, 1.0, 0.5]), st.floats(0.0, 1.0, allow_nan=False))


class PureMachine(MachineMixin, RuleBasedStateMachine):
    def __init__(self):
        super().__init__()
        self.enter()
        self.pool = []          # (family, member-key, problem)
        self.model = {}         # (family, member, fid, bytes) -> value
        self.used = []          # (family, member, point list)
        self.clock = 0
        self.seen_at = {}       # model key -> (clock, instance index, constructions so far)
        self.constructions = 0

    @precondition(lambda self: len(self.pool) < 8)
    @rule(m=members)
    def construct(self, m):
        fam, arg = m[0], m[1]
        self.trace.append(["construct", fam, arg])
        self.step(self._construct, fam, arg)

    @precondition(lambda self: 0 < len(self.pool) < 8)
    @rule(i=st.integers(0, 7))
    def construct_sibling(self, i):
        # one more instance of a member that already has one (a third, a fourth ...): all of them are the same function
        fam, key, _ = self.pool[i % len(self.pool)]
        arg = eval(key)          # repr of None / int / tuple of ints, produced by _construct
        self.trace.append(["construct", fam, arg])
        self.step(self._construct, fam, arg)
        self.cls.add("sibling-instance")

    def _construct(self, fam, arg):
        p = bench.construct(fam, tuple(arg) if isinstance(arg, (list, tuple)) else arg)
        if np.geterr() != NP_ERR:
            fail("constructing %s(%r) left numpy's floating-point error handling at %r (it was %r): later evaluations "
                 "of other problems depend on that process-wide setting" % (fam, arg, np.geterr(), NP_ERR))
        self.pool.append((fam, repr(arg), p))
        self.constructions += 1
        self.cls.add("family=" + fam)

    @precondition(lambda self: len(self.pool) > 0)
    @rule(i=st.integers(0, 7), kind=st.sampled_from(["uniform", "uniform", "face", "optimum", "ball", "reuse", "reuse", "near"]),
          u=st.lists(unit, min_size=16, max_size=16), as_list=st.booleans(), fid=st.integers(-1, 2),
          pick=st.integers(0, 10 ** 6), buffered=st.sampled_from([False, False, True]))
    def evaluate(self, i, kind, u, as_list, fid, pick, buffered):
        i %= len(self.pool)
        self.trace.append(["evaluate", i, kind, u, as_list, fid, pick, buffered])
        self.step(self._evaluate, i, kind, u, as_list, fid, pick, buffered)

    def _evaluate(self, i, kind, u, as_list, fid, pick, buffered=False):
        from iOpt.trial import FunctionValue, FunctionType, Point
        fam, key, p = self.pool[i]
        lo, hi = bench.bounds(p)
        n = len(lo)
        near = False
        if kind in ("reuse", "near"):
            cands = [pt for (f2, k2, pt) in self.used if f2 == fam and k2 == key]
            if not cands:
                kind = "uniform"
            else:
                y = list(cands[pick % len(cands)])
                if kind == "near":
                    # a different point a hair away from one used before (1e-16 .. 1e-9 of the side)
                    step = 10.0 ** -(9 + pick % 8)
                    y = [min(b, max(a, v + step * (b - a) * (1 if (pick >> k) % 2 else -1)))
                         for k, (v, a, b) in enumerate(zip(y, lo, hi))]
                    near = True
        if kind == "uniform":
            y = [a + t * (b - a) for a, b, t in zip(lo, hi, u)]
        elif kind == "face":
            y = [a if t < 0.34 else (b if t > 0.66 else a + t * (b - a)) for a, b, t in zip(lo, hi, u)]
        elif kind == "optimum":
            y = bench.declared(p)[0]
        elif kind == "ball":
            if fam == "gkls":
                m = p.function.GKLS_minima
                j = 1 + pick % 9
                d = np.array(u[:n]) - 0.5
                d = d / (np.linalg.norm(d) + 1e-12)
                y = list(np.clip(np.array(m.local_min[j]) + d * m.rho[j] * u[5], -1, 1))
            else:
                y = [a + t * (b - a) for a, b, t in zip(lo, hi, u)]
        y = [float(v) for v in y][:n]
        if fam == "stronginC3" and fid >= 0:
            holder = FunctionValue(FunctionType.CONSTRAINT, fid)
        else:
            fid = -1
            holder = FunctionValue()
        if buffered and pick % 2:
            # the caller re-uses one value holder: it still holds the value of an earlier evaluation
            holder.value = self.last_value if getattr(self, "last_value", None) is not None else 17.25
            self.cls.add("re-used-value-holder")
        if buffered:
            # the caller keeps ONE coordinate container (and one Point) per instance and overwrites it in place
            # between evaluations, as an optimisation loop that re-uses its work vector does
            self.buffers = getattr(self, "buffers", {})
            bk = (i, as_list)
            if bk not in self.buffers:
                cont = [0.0] * n if as_list else np.zeros(n, dtype=np.double)
                self.buffers[bk] = (cont, Point(cont, []))
            arg, point = self.buffers[bk]
            arg[:] = y
            self.cls.add("re-used-argument-container")
        else:
            arg = list(y) if as_list else np.array(y, dtype=np.double)
            point = Point(arg, [])
        before = list(arg) if as_list else arg.copy()
        out = p.Calculate(point, holder)
        self.clock += 1
        who = "%s(%s) instance %d at %r%s: " % (fam, key, i, y, " (re-used argument container)" if buffered else "")
        if out is not holder:
            fail(who + "Calculate returned a different object than the supplied value holder")
        val = holder.value
        self.last_value = val
        if as_list:
            if list(arg) != before or not isinstance(arg, list):
                fail(who + "Calculate modified the point: %r -> %r" % (before, arg))
        else:
            if arg.dtype != before.dtype or not np.array_equal(arg, before):
                fail(who + "Calculate modified the point: %r -> %r" % (before.tolist(), arg.tolist()))
        if not np.isfinite(val):
            fail(who + "value %r" % (val,))
        if buffered:
            # same instance, same point, supplied in a new container: must be the same value
            h2 = FunctionValue(FunctionType.CONSTRAINT, fid) if (fam == "stronginC3" and fid >= 0) else FunctionValue()
            v2 = p.Calculate(Point(np.array(y, dtype=np.double), []), h2).value
            if float(v2) != float(val):
                fail(who + "value %r through the re-used container, %r for the same point in a new array" %
                     (float(val), float(v2)))
        if near and fam != "grishagin":
            # a point next to an old one has its own value: a brand-new instance of the member must agree
            fresh = bench.construct(fam, eval(key))
            h3 = FunctionValue(FunctionType.CONSTRAINT, fid) if (fam == "stronginC3" and fid >= 0) else FunctionValue()
            v3 = fresh.Calculate(Point(np.array(y, dtype=np.double), []), h3).value
            self.cls.add("near-an-earlier-point")
            if float(v3) != float(val):
                fail(who + "value %r on this instance, %r on a brand-new instance of the same member (the point is "
                     "within 1e-9 of the side of a point evaluated earlier)" % (float(val), float(v3)))
        mk = (fam, key, fid, np.array(y, dtype=np.double).tobytes())
        if mk in self.model:
            if float(val) != self.model[mk]:
                fail(who + "value %r now, %r when this point was first evaluated (function id %d)" %
                     (float(val), self.model[mk], fid))
            c0, i0, k0 = self.seen_at[mk]
            if self.constructions > k0 and self.foreign_eval_since(c0, i):
                self.nontrivial = True
                self.cls.add("re-evaluated-after-foreign-activity")
        else:
            self.model[mk] = float(val)
            self.seen_at[mk] = (self.clock, i, self.constructions)
        self.used.append((fam, key, y))
        self.log_eval = getattr(self, "log_eval", [])
        self.log_eval.append((self.clock, i))

    def foreign_eval_since(self, c0, i):
        return any(c > c0 and j != i for c, j in getattr(self, "log_eval", []))

    def teardown(self):
        self.finish()


def machine(ctx):
    machine_run(ctx, PureMachine, ctx.budget, steps=40)


SUBCHECKS = {"machine": machine}


def replay(kind, case):
    PureMachine._st = {"best": None, "after": 0}
    PureMachine._ctx = None
    m = PureMachine()
    for s in case["steps"]:
        if s[0] == "construct":
            m._construct(s[1], s[2])
        else:
            m._evaluate(*s[1:])
