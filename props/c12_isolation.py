"""C12 - solver instances are isolated from one another."""
import itertools

from hypothesis import strategies as st
from hypothesis.stateful import RuleBasedStateMachine, rule, precondition, invariant, initialize

from vlib import gen
from vlib.agp import Run, best_of
from vlib.runner import fail, hyp_run, machine_run, MachineMixin
from vlib.searchinv import check_search_data, check_reported_best

LEVEL = "exploration"
RULE = ("(a) Hypothesis RuleBasedStateMachine: rules new_solver(problem recipe, parameters or default "
        "SolverParameters), step(i,k), solve(i), read(i) (keeps the returned Solution object) over up to 4 live "
        "solvers with different objectives and dimensions; after EVERY rule each live solver's evaluation log must be "
        "a prefix of its solo reference (same recipe run alone before, and again alone after the interleaved phase: "
        "A-B-A), its search information must pass the C06 invariants and every Solution object ever obtained must "
        "report the optimum of its own solver's history. (b) exhaustive: ALL interleavings of two solvers with 4 "
        "single steps each (70) and of three solvers with 2 steps each (90) for Hypothesis-drawn problem tuples. "
        "Problems have N=1..7 or are shipped benchmark problems (incl. Grishagin); SolverParameters.startPoint and "
        "refineSolution may be set; a solver may be handed the very SolverParameters object of another live solver, or "
        "none at all (the shared default). Non-trivial (a): a Solution was read, then another solver was created or stepped, then the first Solution "
        "was checked again. (c) pairs of solvers holding ONE SolverParameters object (half of the parameter sets push "
        "the first solver to the float resolution of the curve coordinate, some refine), driven by every order of "
        "{Solve A, Solve B, step A, step B}: evaluation logs and results must equal those of the same calls with a "
        "parameters object per solver. (d) two solvers with different parameter sets built on ONE problem object "
        "(generated or shipped), same call orders, in a third of the cases one solver's own evolvent is re-targeted to a "
        "sub-box in between (for shipped families also: two live instances of one family, a problem object each, against "
        "create-solve-read one after the other): each solver's evaluations and results must equal those it has with "
        "a problem object of its own. Distinct = distinct rule sequence / (problems, interleaving).")
ASSUMPTIONS = [
    "solo references are computed in the same process (other solvers exist but are idle)",
    "steps are capped at 40 trials per solver; Solve on a stepped solver continues to max(steps, n*)",
]
EXHAUSTIVE_SCOPE = {"quick": "all interleavings of 2 solvers x 4 steps and 3 solvers x 2 steps per drawn problem tuple",
                    "thorough": "all interleavings of 2 solvers x 4 steps and 3 solvers x 2 steps per drawn problem tuple"}
NONTRIVIAL_FLOOR = {"quick": 150, "thorough": 1500}
CAP = 70
import numpy as _np
NP_ERR = dict(_np.geterr())


def plan(tier):
    return [("machine", 12, (360 if tier == "quick" else 7200) // 12), ("interleavings", 4, 3 if tier == "quick" else 40),
            ("shared_pairs", 4, (400 if tier == "quick" else 8000) // 4),
            ("same_problem", 4, (400 if tier == "quick" else 8000) // 4)]


@st.composite
def solver_spec(draw):
    # "arbitrary problems": mostly N=1..5, sometimes 6 or 7 (Rastrigin and XSquared ship in any dimension)
    recipe = draw(gen.problem_recipe(dims=(1, 2, 3, 4, 5, 1, 2, 3, 4, 5, 6, 7), densities=(10, 10, 10, 8, 12, 6)))
    if draw(st.integers(0, 11)) == 0:
        # a solver that runs into the float resolution of the curve coordinate (the method's own 'outside of interval'
        # branch): eps far below the spacing of doubles on a kinked 1-D objective
        recipe, params = draw(gen.resolution_case())
        recipe = dict(recipe, density=10) if recipe["n"] == 1 else recipe
        spec = {"recipe": recipe, "params": dict(params, itersLimit=70)}
        if draw(st.booleans()):
            spec["share"] = draw(st.integers(0, 3))
        return spec
    if draw(st.integers(0, 4)) == 0:
        # a shipped benchmark problem (their generators keep tables; two live instances must not share them)
        recipe = draw(gen.shipped_recipe(grishagin=True))
        nn = {"hill": 1, "shekel": 1, "grishagin": 2}.get(recipe["shipped"][0])
        if nn is None:
            nn = recipe["shipped"][1] if recipe["shipped"][0] in ("rastrigin", "xsquared") else recipe["shipped"][1][0]
        recipe = dict(recipe, n=nn)
    if draw(st.integers(0, 4)) == 0:
        return {"recipe": recipe, "params": None}
    params = {"r": draw(gen.r_values), "eps": draw(gen.eps_values(min(recipe["n"], 5), 10, cheap=False)),
              "itersLimit": draw(st.sampled_from([1, 2, 5, 20, 40, 40]))}
    if draw(st.integers(0, 3)) == 0:
        params["refine"] = True          # refineSolution=True: Solve ends with the local refinement
    if "shipped" not in recipe and draw(st.integers(0, 3)) == 0:
        # SolverParameters.startPoint (ignored by the pinned code); near a minimiser in half of the cases, so that
        # a start point that is honoured would stay the best trial for a while
        obj = recipe["obj"]
        near = obj.get("p")
        near = near[0] if (near and isinstance(near[0], list)) else near
        if near is not None and len(near) == recipe["n"] and draw(st.booleans()):
            u = [min(1.0, max(0.0, float(v))) for v in near]
        else:
            u = [draw(gen.unit01) for _ in range(recipe["n"])]
        params["startPoint"] = [a + t * (b - a) for a, b, t in zip(recipe["lower"], recipe["upper"], u)]
    spec = {"recipe": recipe, "params": params}
    if draw(st.integers(0, 3)) == 0:
        # one SolverParameters object handed to several solvers: this solver re-uses the object (and therefore
        # the values) of the live solver with this index, if there is one with explicit parameters
        spec["share"] = draw(st.integers(0, 3))
    return spec


def solo_reference(spec):
    """(T: first CAP trials alone, n*: stop index of a plain Solve, capped)."""
    dflt = spec["params"] is None
    refine = bool(spec["params"] and spec["params"].get("refine"))
    ref = Run(spec["recipe"], spec["params"], record=False, default_params=dflt, refine=refine)
    try:
        ref.step(CAP)
    except Exception as e:
        if "outside of interval" not in str(e):
            raise
    T = [(y, v) for _, y, v in ref.problem.log]
    if dflt:
        return T, None           # default itersLimit=20000: Solve is not used on these
    if refine:
        return T, "refine"       # the solo reference of a refining Solve is computed when Solve is called
    plain = Run(spec["recipe"], spec["params"], record=False)
    plain.solve()
    return T, len(plain.problem.log)


class Live:
    def __init__(self, spec, sp_obj=None):
        self.spec = spec
        self.T, self.nstar = solo_reference(spec)
        self.refine = bool(spec["params"] and spec["params"].get("refine"))
        self.run = Run(spec["recipe"], spec["params"], default_params=spec["params"] is None, sp_obj=sp_obj,
                       refine=self.refine)
        self.steps = 0
        self.solutions = []      # Solution objects handed out
        self.dead = False        # hit float resolution: no further operations
        self.frozen = None

    def expected_len(self):
        return len(self.run.problem.log)

    def check(self, who):
        log = [(y, v) for _, y, v in self.run.problem.log]
        if getattr(self, "frozen", None) is not None:
            sol = self.run.results()
            now = (best_of(sol), sol.numberOfGlobalTrials, sol.numberOfLocalTrials)
            if log != self.frozen[0] or now != self.frozen[1]:
                fail("%sthe finished (refined) solver changed: result %r, was %r; %d evaluations, were %d" %
                     (who, now, self.frozen[1], len(log), len(self.frozen[0])))
            return
        if log != self.T[:len(log)]:
            fail("%sits evaluation log (%d trials) is no longer a prefix of the log of the same solver run alone" %
                 (who, len(log)))
        if log:
            check_search_data(self.run, who=who)
        for s in self.solutions:
            pt, val = best_of(s)
            check_reported_best(pt, val, self.run.problem.log, self.run.problem,
                                who=who + "a Solution obtained earlier: ")


class IsolationMachine(MachineMixin, RuleBasedStateMachine):
    def __init__(self):
        super().__init__()
        self.enter()
        self.live = []
        self.read_pending = set()    # solvers whose Solution was read and not yet re-checked after foreign activity
        self.foreign_after_read = set()

    def _foreign(self, i):
        for j in self.read_pending:
            if j != i:
                self.foreign_after_read.add(j)

    def _check_all(self, what):
        import numpy as np
        if np.geterr() != NP_ERR:
            fail("after %s numpy's floating-point error handling is %r, it was %r: a process-wide setting other "
                 "solvers' objectives depend on" % (what, np.geterr(), NP_ERR))
        for j, lv in enumerate(self.live):
            lv.check("after %s, solver %d: " % (what, j))
            if j in self.foreign_after_read and lv.solutions:
                self.nontrivial = True
                self.cls.add("solution-rechecked-after-foreign-activity")

    @precondition(lambda self: len(self.live) < 4)
    @rule(spec=solver_spec())
    def new_solver(self, spec):
        self.trace.append(["new", spec])
        self.step(self._new, spec)

    def _new(self, spec):
        sp_obj = None
        if spec.get("share") is not None and spec["params"] is not None and self.live:
            donor = self.live[spec["share"] % len(self.live)]
            if donor.spec["params"] is not None:
                # same object, hence the same values - the density included, which lives in the same object
                spec = dict(spec, params=dict(donor.spec["params"]),
                            recipe=dict(spec["recipe"], density=donor.spec["recipe"].get("density", 10)))
                sp_obj = donor.run.sp
                self.cls.add("shared-parameters-object")
        self.live.append(Live(spec, sp_obj))
        self._foreign(len(self.live) - 1)
        if spec["recipe"]["n"] >= 6:
            self.cls.add("N>=6")
        if spec["params"] is None:
            self.cls.add("default-parameters")
        self._check_all("creating solver %d" % (len(self.live) - 1))

    @precondition(lambda self: len(self.live) > 0)
    @rule(i=st.integers(0, 3), k=st.sampled_from([1, 1, 1, 2, 3, 5]))
    def do_step(self, i, k):
        i %= len(self.live)
        self.trace.append(["step", i, k])
        self.step(self._step, i, k)

    def _step(self, i, k):
        lv = self.live[i]
        if lv.dead or lv.steps + k > min(CAP, len(lv.T)):
            return
        lv.run.step(k)
        lv.steps += k
        self._foreign(i)
        self._check_all("DoGlobalIteration(%d) on solver %d" % (k, i))

    @precondition(lambda self: len(self.live) > 0)
    @rule(i=st.integers(0, 3))
    def do_solve(self, i):
        i %= len(self.live)
        self.trace.append(["solve", i])
        self.step(self._solve, i)

    def _solve(self, i):
        lv = self.live[i]
        if lv.dead or lv.nstar is None:
            return
        if lv.nstar == "refine":
            self._solve_refining(i, lv)
            return
        if max(lv.nstar, lv.steps) > len(lv.T):
            return
        sol = lv.run.solve()
        want = max(lv.nstar, lv.steps)
        if len(lv.run.problem.log) != want:
            fail("Solve on solver %d (after %d stepped trials) made the log %d long; alone it stops at %d" %
                 (i, lv.steps, len(lv.run.problem.log), want))
        lv.steps = want
        if "Exception was thrown" in lv.run.stdout():
            # the search ended in the method's own float-resolution error, not in the stop criterion: what a further
            # call does is not covered by the statement, so this solver is left alone from here on
            lv.dead = True
        lv.solutions.append(sol)
        self.read_pending.add(i)
        self._foreign(i)
        self._check_all("Solve on solver %d" % i)

    def _solve_refining(self, i, lv):
        """Solve with refineSolution=True: compared in full with the same solver, driven the same way, alone."""
        solo = Run(lv.spec["recipe"], lv.spec["params"], record=False, refine=True)
        if lv.steps:
            solo.step(lv.steps)
        want = solo.solve()
        sol = lv.run.solve()
        a = [(y, v) for _, y, v in lv.run.problem.log]
        b = [(y, v) for _, y, v in solo.problem.log]
        if a != b:
            fail("Solve with refineSolution=True on solver %d (after %d stepped trials): %d evaluations, the same "
                 "solver alone makes %d (or at other points)" % (i, lv.steps, len(a), len(b)))
        got = (best_of(sol), sol.numberOfGlobalTrials, sol.numberOfLocalTrials)
        exp = (best_of(want), want.numberOfGlobalTrials, want.numberOfLocalTrials)
        if got != exp:
            fail("Solve with refineSolution=True on solver %d returns %r, the same solver alone %r" % (i, got, exp))
        lv.dead = True                  # its log now ends with local evaluations: no further operations on it
        lv.frozen = (a, got)            # from now on nothing about this solver may change
        self.cls.add("refining-solve")
        self._foreign(i)
        self._check_all_but(i, "Solve (refining) on solver %d" % i)

    def _check_all_but(self, i, what):
        for j, lv in enumerate(self.live):
            if j != i:
                lv.check("after %s, solver %d: " % (what, j))

    @precondition(lambda self: any(lv.steps > 0 for lv in self.live))
    @rule(i=st.integers(0, 3))
    def do_read(self, i):
        i %= len(self.live)
        self.trace.append(["read", i])
        self.step(self._read, i)

    def _read(self, i):
        lv = self.live[i]
        if lv.steps == 0:
            return
        lv.solutions.append(lv.run.results())
        self.read_pending.add(i)
        self._check_all("GetResults on solver %d" % i)

    def teardown(self):
        if self._st["best"] is None and self.live:
            # A-B-A: running each recipe alone again must reproduce the reference taken before
            def again():
                for j, lv in enumerate(self.live):
                    T2, n2 = solo_reference(lv.spec)
                    if T2 != lv.T or n2 != lv.nstar:
                        fail("solver %d run alone after the interleaved phase differs from the same run alone before" % j)
            self.step(again)
            self.cls.add("solvers=%d" % len(self.live))
        self.finish()


def machine(ctx):
    machine_run(ctx, IsolationMachine, ctx.budget, steps=14)


def replay_steps(steps):
    class _St(dict):
        pass
    IsolationMachine._st = {"best": None, "after": 0}
    IsolationMachine._ctx = None
    m = IsolationMachine()
    for s in steps:
        if s[0] == "new":
            m._new(s[1])
        elif s[0] == "step":
            m._step(s[1], s[2])
        elif s[0] == "solve":
            m._solve(s[1])
        elif s[0] == "read":
            m._read(s[1])
    for j, lv in enumerate(m.live):
        T2, n2 = solo_reference(lv.spec)
        if T2 != lv.T or n2 != lv.nstar:
            fail("solver %d run alone after the interleaved phase differs from the same run alone before" % j)


# ------------------------------------------------------------------ exhaustive interleavings

@st.composite
def tuples(draw):
    specs = []
    for _ in range(3):
        recipe = draw(gen.problem_recipe())
        specs.append({"recipe": recipe, "params": {"r": draw(gen.r_values), "eps": 1e-6 if recipe["n"] == 1 else
                                                    gen.eps_min(recipe["n"], 10), "itersLimit": 40}})
    return {"specs": specs}


def interleave_body(case):
    specs = case["specs"]
    count = 0
    for nsolv, nsteps in ((2, 4), (3, 2)):
        use = specs[:nsolv]
        refs = [solo_reference(s)[0] for s in use]
        for order in set(itertools.permutations([i for i in range(nsolv) for _ in range(nsteps)])):
            lives = [Live.__new__(Live) for _ in use]
            for lv, s, T in zip(lives, use, refs):
                lv.spec, lv.T, lv.nstar = s, T, None
                lv.run = Run(s["recipe"], s["params"])
                lv.steps, lv.solutions, lv.dead = 0, [], False
            for pos, i in enumerate(order):
                lives[i].run.step(1)
                lives[i].steps += 1
                lives[i].solutions.append(lives[i].run.results())
                for j, lv in enumerate(lives):
                    lv.check("interleaving %r, after step %d (solver %d), solver %d: " % (order, pos + 1, i, j))
            count += 1
    interleave_body.counted += count
    return True, ["tuple"], {"case": {"families": [s["recipe"]["obj"]["family"] for s in specs]}, "interleavings": count}


interleave_body.counted = 0


def interleavings(ctx):
    ctx.exhaustive = True
    interleave_body.counted = 0
    hyp_run(ctx, tuples(), interleave_body, ctx.budget, shrink_calls=30)
    ctx.count(interleave_body.counted, ["enumerated-interleavings"], nontrivial=interleave_body.counted)


# ------------------------------------------------------------------ two solvers on ONE SolverParameters object

@st.composite
def pair_cases(draw):
    """Two problems and one parameter set; half of the time the parameter set pushes the first solver to the float
    resolution of the curve coordinate (the method's own 'outside of interval' branch)."""
    if draw(st.booleans()):
        ra, params = draw(gen.resolution_case())
        params = dict(params, itersLimit=draw(st.sampled_from([70, 120])))
    else:
        ra = draw(gen.problem_recipe(dims=(1, 2, 3)))
        params = {"r": draw(gen.r_values), "eps": draw(gen.eps_values(ra["n"], 10, cheap=False)),
                  "itersLimit": draw(st.sampled_from([5, 20, 40]))}
        if draw(st.integers(0, 3)) == 0:
            params["refine"] = True
    rb = draw(gen.problem_recipe(dims=(1, 2, 3)))
    ra, rb = dict(ra, density=10), dict(rb, density=10)
    ops = draw(st.permutations(["solveA", "solveB", "stepA", "stepB"]))
    return {"a": ra, "b": rb, "params": params, "ops": list(ops), "k": draw(st.sampled_from([1, 3, 7]))}


def drive_pair(case, shared):
    """Logs and results of A and B under the given call order; shared=True: both solvers hold the same
    SolverParameters object, shared=False: each its own object with the same values."""
    p = case["params"]
    refine = bool(p.get("refine"))
    a = Run(case["a"], p, record=False, refine=refine)
    b = Run(case["b"], p, record=False, refine=refine, sp_obj=a.sp if shared else None)
    runs = {"A": a, "B": b}
    done = {"A": False, "B": False}
    for op in case["ops"]:
        who = op[-1]
        r = runs[who]
        try:
            if op.startswith("solve"):
                r.solve()
                done[who] = True
            elif not done[who]:
                r.step(case["k"])
        except Exception as e:
            if "outside of interval" not in str(e):
                raise
            done[who] = True
    out = {}
    for who, r in runs.items():
        sol = r.results()
        out[who] = ([(y, v) for _, y, v in r.problem.log],
                    (best_of(sol), sol.numberOfGlobalTrials, sol.numberOfLocalTrials) if r.problem.log else None)
    return out


def pair_body(case):
    own = drive_pair(case, shared=False)
    shared = drive_pair(case, shared=True)
    for who in ("A", "B"):
        if shared[who] != own[who]:
            fail("two solvers holding the same SolverParameters object, calls %r (k=%d): solver %s makes %d "
                 "evaluations / returns %r; with a parameters object of its own (same values) %d / %r" %
                 (case["ops"], case["k"], who, len(shared[who][0]), shared[who][1], len(own[who][0]), own[who][1]))
    res = case["params"]["eps"] < 1e-12
    return True, ["pair:" + ("float-resolution" if res else "ordinary") + (":refine" if case["params"].get("refine") else "")]


def shared_pairs(ctx):
    hyp_run(ctx, pair_cases(), pair_body, ctx.budget, shrink_calls=60)


# ------------------------------------------------------------------ two solvers on ONE problem object

@st.composite
def same_problem_cases(draw):
    """One problem (generated or shipped) and two parameter sets: the same problem object is handed to two solvers
    (the usual way to compare parameter settings on one problem)."""
    if draw(st.integers(0, 3)) == 0:
        rec = draw(gen.shipped_recipe(grishagin=True))
        n = {"hill": 1, "shekel": 1, "grishagin": 2}.get(rec["shipped"][0], 2)
    else:
        rec = dict(draw(gen.problem_recipe(dims=(1, 2, 3, 4), styles=True)), density=10)
        n = rec["n"]
    ps = []
    for _ in range(2):
        q = {"r": draw(gen.r_values), "eps": draw(gen.eps_values(min(n, 3), 10, cheap=False)),
             "itersLimit": draw(st.sampled_from([5, 20, 40]))}
        if draw(st.integers(0, 2)) == 0:
            q["refine"] = True
        if draw(st.integers(0, 3)) == 0:
            q["rebound"] = True
        ps.append(q)
    ops = ["solveA", "solveB", "stepA", "stepB", "stepA", "stepB"]
    if draw(st.booleans()):
        # solver A is re-targeted to a sub-box through its own evolvent (Evolvent.SetBounds): A's business only
        ops.append("zoomA")
        if draw(st.integers(0, 3)) > 0:
            ps[0]["refine"] = True
    ops = draw(st.permutations(ops))
    if "shipped" in rec and draw(st.booleans()):
        # instead: two live instances of ONE shipped family (different members, an object each), interleaved; each
        # solver must do what it does when its problem is created, solved and read before the other one exists
        name, arg = rec["shipped"]
        if name in ("hill", "shekel"):
            other = (arg + 1 + draw(st.integers(0, 997))) % 1000
        elif name == "grishagin":
            other = draw(st.sampled_from([a for a in (1, 2, 3, 11, 12, 21, 31, 41) if a != arg]))
        elif name in ("rastrigin", "xsquared"):
            other = 1 + arg % 4
        else:
            other = [arg[0], 1 + arg[1] % 100]
        return {"recipe": rec, "sibling": dict(rec, shipped=[name, other]), "pa": ps[0], "pb": ps[1],
                "ops": [o for o in ops if o != "zoomA"], "k": draw(st.sampled_from([1, 3, 7]))}
    return {"recipe": rec, "pa": ps[0], "pb": ps[1], "ops": list(ops), "k": draw(st.sampled_from([1, 3, 7])),
            "late_b": draw(st.booleans())}


def drive_same_problem(case, shared):
    pa, pb = case["pa"], case["pb"]
    a = Run(case["recipe"], pa, record=False, refine=bool(pa.get("refine")))
    def make_b():
        return Run(case["recipe"], pb, record=False, refine=bool(pb.get("refine")),
                   problem_obj=a.problem if shared else None)
    # solver B exists from the start, or (the problem's second user arrives later) only from its first call on
    runs = {"A": a} if case.get("late_b") else {"A": a, "B": make_b()}
    done = {"A": False, "B": False}
    logs = {"A": [], "B": []}
    for op in case["ops"]:
        who = op[-1]
        if who not in runs:
            runs[who] = make_b()
        r = runs[who]
        k0 = len(r.problem.log)
        try:
            if op == "zoomA":
                lo = [float(v) for v in r.problem.lowerBoundOfFloatVariables]
                hi = [float(v) for v in r.problem.upperBoundOfFloatVariables]
                r.solver.evolvent.SetBounds([u + 0.25 * (v - u) for u, v in zip(lo, hi)],
                                            [v - 0.125 * (v - u) for u, v in zip(lo, hi)])
            elif op.startswith("solve"):
                r.solve()
                done[who] = True
            elif not done[who]:
                r.step(case["k"])
        except Exception as e:
            if "outside of interval" not in str(e):
                raise
            done[who] = True
        logs[who] += [(y, v) for _, y, v in r.problem.log[k0:]]
    out = {}
    for who, r in runs.items():
        sol = r.results()
        out[who] = (logs[who], (best_of(sol), sol.numberOfGlobalTrials, sol.numberOfLocalTrials) if logs[who] else None)
    bounds = ([float(v) for v in a.problem.lowerBoundOfFloatVariables], [float(v) for v in a.problem.upperBoundOfFloatVariables])
    return out, bounds


def drive_siblings(case, interleaved):
    pa, pb = case["pa"], case["pb"]
    order = case["ops"] if interleaved else ([o for o in case["ops"] if o.endswith("A")] +
                                              [o for o in case["ops"] if o.endswith("B")])
    runs, done, logs, out = {}, {"A": False, "B": False}, {"A": [], "B": []}, {}

    def get(who):
        if who not in runs:
            p = pa if who == "A" else pb
            runs[who] = Run(case["recipe"] if who == "A" else case["sibling"], p, record=False,
                            refine=bool(p.get("refine")))
        return runs[who]
    if interleaved:
        get("A"), get("B")           # both problem objects exist before either solver runs
    for op in order:
        who = op[-1]
        r = get(who)
        try:
            if op.startswith("solve"):
                r.solve()
                done[who] = True
            elif not done[who]:
                r.step(case["k"])
        except Exception as e:
            if "outside of interval" not in str(e):
                raise
            done[who] = True
        if not interleaved and op == [o for o in order if o.endswith(who)][-1]:
            sol = r.results()        # read before the other problem exists
            out[who] = ([(y, v) for _, y, v in r.problem.log],
                        (best_of(sol), sol.numberOfGlobalTrials, sol.numberOfLocalTrials) if r.problem.log else None)
    if interleaved:
        for who, r in runs.items():
            sol = r.results()
            out[who] = ([(y, v) for _, y, v in r.problem.log],
                        (best_of(sol), sol.numberOfGlobalTrials, sol.numberOfLocalTrials) if r.problem.log else None)
    return out


def siblings_body(case):
    alone = drive_siblings(case, interleaved=False)
    together = drive_siblings(case, interleaved=True)
    for who in ("A", "B"):
        if together.get(who) != alone.get(who):
            a, b = together.get(who), alone.get(who)
            fail("two live problems of one shipped family (%r and %r), calls %r (k=%d): solver %s makes %d evaluations / "
                 "returns %r; when its problem is created, solved and read before the other exists %d / %r" %
                 (case["recipe"]["shipped"], case["sibling"]["shipped"], case["ops"], case["k"], who,
                  len(a[0]) if a else -1, a[1] if a else None, len(b[0]) if b else -1, b[1] if b else None))
    return True, ["siblings:" + case["recipe"]["shipped"][0]]


def same_problem_body(case):
    if case.get("sibling"):
        return siblings_body(case)
    own, b0 = drive_same_problem(case, shared=False)
    shared, b1 = drive_same_problem(case, shared=True)
    if b0 != b1:
        fail("two solvers built on one problem object, calls %r: the problem's box is %r afterwards, %r when each "
             "solver has a problem object of its own" % (case["ops"], b1, b0))
    for who in ("A", "B"):
        if shared[who] != own[who]:
            fail("two solvers built on ONE problem object, calls %r (k=%d): solver %s makes %d evaluations / returns "
                 "%r; with a problem object of its own (same problem) %d / %r" %
                 (case["ops"], case["k"], who, len(shared[who][0]), shared[who][1], len(own[who][0]), own[who][1]))
    return True, ["same-problem:" + ("shipped" if "shipped" in case["recipe"] else "generated") +
                  (":refine" if case["pa"].get("refine") or case["pb"].get("refine") else "") +
                  (":one-solver-re-targeted" if "zoomA" in case["ops"] else "")]


def same_problem(ctx):
    hyp_run(ctx, same_problem_cases(), same_problem_body, ctx.budget, shrink_calls=60)


SUBCHECKS = {"machine": machine, "interleavings": interleavings, "shared_pairs": shared_pairs,
             "same_problem": same_problem}


def replay(kind, case):
    if kind == "shared_pairs":
        pair_body(case)
        return
    if kind == "same_problem":
        same_problem_body(case)
        return
    if kind == "machine":
        replay_steps(case["steps"])
    else:
        interleave_body(case)
