"""C09 - the inverse image is consistent with the image."""
import math

import numpy as np
from hypothesis import strategies as st

from vlib import evo, gen
from vlib.runner import fail, hyp_run
from props.c07_evolvent_bijection import make, vias

LEVEL = "exploration"
RULE = ("Hypothesis-generated: N in 1..5, N*m<=50, arbitrary (mostly asymmetric) boxes; (forward) x from the C07 "
        "generators (exact dyadics, weighted indices and offsets, arbitrary doubles, x=1): inverse(image(x)) must be "
        "floor(x*T)/T exactly; (backward) y uniform in the box, on cell boundaries, on faces and corners, at cell "
        "centres, given as float array, float list or integer-valued list: inverse(y) is a multiple of 1/T in [0,1) "
        "and image(inverse(y)) is within half a cell per axis of y; GetPreimages == GetInverseImage; N=1: both maps "
        "affine within 4 ulp*scale; the object is configured through the constructor (one new object per query), or "
        "ONE object configured through SetBounds / driven through a query history answers all queries. Plus exhaustive round trip over all cells of all (N,m) with N*m<=18 (quick) / 22 "
        "(thorough). Non-trivial: N>=2 and (y not a cell centre, or x not a subinterval left end).")
ASSUMPTIONS = [
    "forward round trip through a non-unit box asserted only where the affine map's rounding allowance is below "
    "0.01 cell (always inside the generated box bounds); otherwise only the unit-cube round trip is asserted",
    "half-a-cell comparison is closed and carries the rounding allowance of the affine map",
]
EXHAUSTIVE_SCOPE = {"quick": "round trip x -> y -> x over all subintervals of all (N,m), N*m<=18",
                    "thorough": "round trip x -> y -> x over all subintervals of all (N,m), N*m<=22"}
NONTRIVIAL_FLOOR = {"quick": 1000, "thorough": 10000}
LIMIT = {"quick": 18, "thorough": 22}


# thorough tier: coverage-guided (atheris) drive of the same generator and oracle: kind -> (shards, cases per shard)
FUZZ = {"forward": (8, 20000), "backward": (8, 20000)}


def plan(tier):
    return [("exhaustive", 16, 0), ("forward", 8, (12000 if tier == "quick" else 240000) // 8),
            ("backward", 8, (12000 if tier == "quick" else 240000) // 8)]


def exhaustive(ctx):
    ctx.exhaustive = True
    pairs = [(n, m) for n in (2, 3, 4, 5) for m in range(1, 20) if n * m <= LIMIT[ctx.tier]]
    for n, m in pairs:
        nm = n * m
        T = 1 << nm
        ev = make(n, m)
        cnt = 0
        for i in range(ctx.shard, T, ctx.nshards):
            x = evo.x_of(evo.num_first(i, nm))
            y = ev.GetImage(x)
            back = ev.GetInverseImage(y)
            if back != x:
                ctx.violation({"n": n, "m": m, "kind": "index", "i": i, "offs": [], "lower": [-0.5] * n,
                               "upper": [0.5] * n}, "N=%d, m=%d: inverse(image(%r)) = %r" % (n, m, x, back), "forward")
                return
            cnt += 1
        ctx.count(cnt, ["roundtrip N=%d" % n])


@st.composite
def fwd_cases(draw):
    n = draw(st.sampled_from([1, 2, 2, 3, 4, 5]))
    if n == 1:
        m = draw(st.integers(1, 50))
        b = draw(gen.boxes(1))
        lo, hi = b["lower"], b["upper"]
    else:
        n, m = draw(evo.nm_pairs(dims=(n,)))
        lo, hi = draw(evo.evo_boxes(n, m))
    nm = n * m
    kind = draw(st.sampled_from(["index", "index", "double", "one"]))
    case = {"n": n, "m": m, "lower": lo, "upper": hi, "kind": kind, "via": draw(vias)}
    if kind == "index":
        case["i"] = draw(evo.indices(nm))
        case["offs"] = [draw(evo.offsets(nm)) for _ in range(2)]
    elif kind == "double":
        case["x"] = draw(st.one_of(st.floats(0.0, 1.0, allow_nan=False), st.floats(0.0, 2e-9).map(lambda d: 1.0 - d)))
    return case


def fwd_body(case):
    n, m, lo, hi = case["n"], case["m"], case["lower"], case["upper"]
    nm = n * m
    T = 1 << nm
    if case["kind"] == "index":
        xs = [evo.x_of(evo.num_first(case["i"], nm) + o) for o in [0] + case["offs"]]
    elif case["kind"] == "double":
        xs = [case["x"]]
    else:
        xs = [1.0]
    via = case.get("via", "ctor")
    ev = make(n, m, lo, hi, via)
    classes = ["N=%d" % n, "kind=" + case["kind"], "via=" + via]
    nontrivial = False
    for x in xs:
        i = evo.index_of(x, nm)
        want = i / float(T)
        y = ev.GetImage(x)
        if n == 1:
            w = hi[0] - lo[0]
            yt = lo[0] + x * w
            if abs(float(y[0]) - yt) > 4 * math.ulp(max(abs(lo[0]), abs(hi[0]))):
                fail("N=1: image(%r) = %r but the affine map gives %r on [%r, %r]" % (x, float(y[0]), yt, lo[0], hi[0]))
            back = ev.GetInverseImage(y)
            if abs(back - x) > 8 * 2.0 ** -52 * (max(abs(lo[0]), abs(hi[0])) / w + 1):
                fail("N=1: inverse(image(%r)) = %r on [%r, %r]" % (x, back, lo[0], hi[0]))
            continue
        evu = make(n, m, None, None, via)
        bu = evu.GetInverseImage(evu.GetImage(x))
        if bu != want:
            fail("N=%d, m=%d (unit cube): inverse(image(%r)) = %r, expected floor(x*T)/T = %r" % (n, m, x, bu, want))
        if max(evo.cell_allowance(lo, hi, m)) <= 0.01:
            back = ev.GetInverseImage(y)
            pre = ev.GetPreimages(y)
            if back != want:
                fail("N=%d, m=%d, box [%r, %r]: inverse(image(%r)) = %r, expected floor(x*T)/T = %r" %
                     (n, m, lo, hi, x, back, want))
            if pre != back:
                fail("GetPreimages %r differs from GetInverseImage %r" % (pre, back))
        else:
            classes.append("box-resolution-limited")
        if x != want:
            nontrivial = True
    return nontrivial, classes


@st.composite
def bwd_cases(draw):
    n = draw(st.sampled_from([1, 2, 2, 3, 4, 5]))
    if n == 1:
        m = draw(st.integers(1, 50))
        b = draw(gen.boxes(1))
        lo, hi = b["lower"], b["upper"]
    else:
        n, m = draw(evo.nm_pairs(dims=(n,)))
        lo, hi = draw(evo.evo_boxes(n, m))
    form = draw(st.sampled_from(["array", "list", "intlist"]))
    if form == "intlist":
        # integer-valued arguments (the repository's own test calls GetPreimages([0])): integer box
        lo = [float(draw(st.integers(-8, 4))) for _ in range(n)]
        hi = [a + float(draw(st.integers(1, 9))) for a in lo]
        y = [draw(st.integers(int(a), int(b))) for a, b in zip(lo, hi)]
        return {"n": n, "m": m, "lower": lo, "upper": hi, "form": form, "y": y, "ykind": "integers", "via": draw(vias)}
    ykind = draw(st.sampled_from(["uniform", "boundary", "face", "centre"]))
    y = []
    for a, b in zip(lo, hi):
        w = b - a
        if ykind == "uniform":
            y.append(a + draw(st.floats(0, 1)) * w)
        elif ykind == "boundary":
            j = draw(st.integers(0, 1 << min(m, 30)))
            y.append(a + w * j / float(1 << min(m, 30)))
        elif ykind == "face":
            y.append(draw(st.sampled_from([a, b, a + draw(st.floats(0, 1)) * w])))
        else:
            j = draw(st.integers(0, (1 << m) - 1))
            y.append(a + w * (j + 0.5) / float(1 << m))
    y = [min(max(v, a), b) for v, a, b in zip(y, lo, hi)]
    return {"n": n, "m": m, "lower": lo, "upper": hi, "form": form, "y": y, "ykind": ykind, "via": draw(vias)}


def bwd_body(case):
    n, m, lo, hi, y = case["n"], case["m"], case["lower"], case["upper"], case["y"]
    nm = n * m
    T = 1 << nm
    via = case.get("via", "ctor")
    # via == "ctor": one new object per query (history independence is C17's subject); otherwise ONE object,
    # configured through SetBounds or driven through a query history, answers all three queries
    one = make(n, m, lo, hi, via) if via != "ctor" else None
    ev = one or make(n, m, lo, hi)
    arg = np.array(y, dtype=np.double) if case["form"] == "array" else list(y)
    x = ev.GetInverseImage(arg)
    pre = (one or make(n, m, lo, hi)).GetPreimages(np.array(y, dtype=np.double) if case["form"] == "array" else list(y))
    if x != pre:
        fail("GetPreimages(%r) = %r differs from GetInverseImage = %r (N=%d, m=%d, box [%r, %r])" %
             (y, pre, x, n, m, lo, hi))
    classes = ["N=%d" % n, "form=" + case["form"], "y=" + case["ykind"], "via=" + via]
    if n == 1:
        w = hi[0] - lo[0]
        xt = (float(y[0]) - lo[0]) / w
        if abs(x - xt) > 8 * 2.0 ** -52 * (max(abs(lo[0]), abs(hi[0])) / w + 1):
            fail("N=1: inverse(%r) = %r but the affine map gives %r on [%r, %r]" % (y, x, xt, lo[0], hi[0]))
        return False, classes
    if not (0.0 <= x < 1.0) or (x * T) != int(x * T):
        fail("N=%d, m=%d: inverse(%r) = %r is not a multiple of 2^-%d in [0,1)" % (n, m, y, x, nm))
    img = (one or make(n, m, lo, hi)).GetImage(x)
    allow = evo.cell_allowance(lo, hi, m)
    for k in range(n):
        half = (hi[k] - lo[k]) / float(1 << (m + 1))
        if abs(float(img[k]) - float(y[k])) > half * (1 + 2 * allow[k]) + 1e-12 * (abs(lo[k]) + abs(hi[k])):
            fail("N=%d, m=%d, box [%r, %r]: image(inverse(y)) = %r is more than half a cell (%r) away from "
                 "y = %r in coordinate %d" % (n, m, lo, hi, list(map(float, img)), half, y, k))
    return case["ykind"] != "centre", classes


def forward(ctx):
    hyp_run(ctx, fwd_cases(), fwd_body, ctx.budget)


def backward(ctx):
    hyp_run(ctx, bwd_cases(), bwd_body, ctx.budget)


SUBCHECKS = {"exhaustive": exhaustive, "forward": forward, "backward": backward}


def replay(kind, case):
    if kind == "backward":
        bwd_body(case)
    else:
        fwd_body(case)
