"""C03 - termination, stop criterion and trial budget."""
import math

from hypothesis import strategies as st

from vlib import gen
from vlib.agp import Run, replay_history, hoelder_eps_cmp
from vlib.runner import fail, hyp_run

LEVEL = "exploration"
RULE = ("Hypothesis-generated (dimension 1..5, box, any objective family, r in [1.01,16], eps from the "
        "float-resolution floor up to 2.0 incl. eps equal to a reachable Hoelder length, itersLimit in "
        "{1,2,3,4,5,...,2000}); one Solve() per case, in a quarter of the cases preceded by DoGlobalIteration "
        "batches that spend part or all of the budget and followed by up to two further Solve() calls (which must "
        "not evaluate anything); oracle = history-based: evaluation count, reported "
        "trial count, budget, 'never earlier / never later' from the Hoelder length of each subdivided "
        "interval (independent model), reported accuracy. Non-trivial: a run of >=3 trials that stopped on "
        "accuracy, or a run that stopped on the budget with itersLimit>=3, or an edge class (itersLimit in "
        "{1,2}, eps>=1, eps tie). Distinct = distinct case digest.")
ASSUMPTIONS = [
    "termination is decided by an evaluation-count guard (itersLimit+3 calls), not by wall clock; a loop that "
    "makes no evaluation would surface as watchdog exit 2",
    "a model length within 4 ulp of eps is accepted either way; strictness of '<' is checked on the solver's "
    "own reported accuracy (if the run stopped before the budget, reported accuracy < eps strictly)",
    "a run ending in the method's own 'x is outside of interval' error is accepted only where the model's "
    "float midpoint rule also returns an end point",
    "refineSolution=False",
]
NONTRIVIAL_FLOOR = {"quick": 200, "thorough": 2000}


# thorough tier: coverage-guided (atheris) drive of the same generator and oracle: kind -> (shards, cases per shard)
FUZZ = {"generated": (8, 1500)}


def plan(tier):
    total = 3000 if tier == "quick" else 50000
    return [("generated", 16, total // 16)]


@st.composite
def cases(draw):
    recipe = draw(gen.problem_recipe(densities=(10, 10, 10, 6, 12), styles=True, offsets=True, huge=True))
    iters = st.one_of(st.sampled_from([1, 2, 3, 4, 5, 10]), st.sampled_from([200, 1000, 2000]),
                      st.sampled_from([200, 1000, 2000]), st.integers(3, 300))
    params = draw(gen.solver_params(recipe["n"], recipe["density"], iters, cheap=False))
    if draw(st.integers(0, 9)) == 0:
        # eps far below the spacing of doubles: the search runs into the float resolution of the curve coordinate,
        # the method refuses the degenerate interval, Solve must still return (values as float or numpy scalars)
        recipe, params = draw(gen.resolution_case())
        recipe = dict(recipe, style={"holder": "same", "valtype": draw(st.sampled_from(["float", "np"]))})
        return {"recipe": recipe, "params": params}
    sp = draw(gen.start_points(recipe))
    if sp is not None:
        params = dict(params, startPoint=sp)      # SolverParameters.startPoint (ignored by the pinned code)
    if draw(st.integers(0, 11)) == 0:
        # the objective has no finite value at one trial (or from one trial on): it hands back NaN or an infinity.
        # Solve always terminates - decided by an executed-line bound, not by a clock
        style = dict(recipe.get("style") or {}, nonfinite={"at": draw(st.integers(1, 12)),
                                                             "value": draw(st.sampled_from(["nan", "inf", "-inf"])),
                                                             "from": draw(st.booleans())})
        style["holder"] = "same"
        return {"recipe": dict(recipe, style=style), "params": dict(params, itersLimit=min(params["itersLimit"], 300)),
                "nonfinite": True}
    case = {"recipe": recipe, "params": params}
    if draw(st.integers(0, 3)) == 0:
        # part of the budget is spent through DoGlobalIteration before Solve (never more than itersLimit, possibly
        # all of it), and Solve may be called again on the finished solver
        lim = params["itersLimit"]
        total = draw(st.one_of(st.just(lim), st.integers(0, lim), st.integers(0, min(lim, 30))))
        total = min(total, 400)
        case["pre"] = draw(gen.compositions(total, max_parts=4)) if total else []
        case["again"] = draw(st.integers(0, 2))
        # ... and a local refinement may be requested between the batches and Solve: it is not a global iteration,
        # the stop rule and the reported accuracy speak about subdivided intervals only
        case["refine_between"] = bool(case["pre"]) and draw(st.integers(0, 2)) == 0
    elif draw(st.integers(0, 5)) == 0 and params["itersLimit"] >= 4:
        # Solve with a smaller budget first, then raise SolverParameters.itersLimit to the real one and Solve again
        case["first_limit"] = draw(st.integers(1, params["itersLimit"] - 1))
    return case


def draw_k(case):
    return 1 + (case["params"]["itersLimit"] + len(case.get("pre", []))) % 40


def solve_counted(run, limit):
    """run.solve(); the evaluation-count guard of the logging problem raises a BaseException of its own when the
    objective is asked for more than limit + 3 values - if the code under test lets that through, it is the verdict."""
    from vlib.objectives import ObjectiveFailure
    try:
        return run.solve()
    except ObjectiveFailure:
        if run.problem.runaway:
            fail("Solve kept evaluating the objective beyond itersLimit+3 = %d evaluations" % (limit + 3))
        raise


def nonfinite_body(case):
    p = case["params"]
    run = Run(case["recipe"], p)
    run.line_guard = True
    run.problem.max_calls = p["itersLimit"] + 3
    sol = solve_counted(run, p["itersLimit"])     # a call that never returns is reported by the line bound
    if run.problem.runaway:
        fail("Solve kept evaluating the objective beyond itersLimit+3 = %d evaluations" % (p["itersLimit"] + 3))
    n = len(run.problem.log)       # evaluations with a finite value
    if sol.numberOfGlobalTrials != n:
        fail("objective without a finite value at call %d: reported numberOfGlobalTrials=%r, %d evaluations "
             "produced a value" % (case["recipe"]["style"]["nonfinite"]["at"], sol.numberOfGlobalTrials, n))
    if n > p["itersLimit"]:
        fail("%d evaluations exceed itersLimit=%d" % (n, p["itersLimit"]))
    hit = run.problem.calls > n
    return hit, ["N=%d" % run.n, "non-finite-objective-value:" + ("hit" if hit else "not-reached")]


def body(case):
    if case.get("nonfinite"):
        return nonfinite_body(case)
    p = case["params"]
    eps, limit, r = p["eps"], p["itersLimit"], p["r"]
    run = Run(case["recipe"], p)
    # termination without evaluations is decided by an executed-line bound
    run.line_guard = eps < 1e-12 or bool(case["recipe"].get("huge"))
    run.problem.max_calls = limit + 3
    pre = 0
    try:
        for k in case.get("pre", []):
            run.step(k)
            pre += k
    except Exception as e:
        if "outside of interval" not in str(e):
            raise
        return False, ["N=%d" % run.n, "float-resolution-stop"]
    nlocal = 0
    if case.get("refine_between") and pre:
        import contextlib
        a = len(run.problem.log)
        run.problem.max_calls = None
        with contextlib.redirect_stdout(run.out):
            run.solver.DoLocalRefinement(draw_k(case))
        nlocal = len(run.problem.log) - a
        local_range = (a, a + nlocal)
        run.problem.max_calls = limit + 3 + nlocal
    if case.get("first_limit"):
        run.sp.itersLimit = case["first_limit"]
        solve_counted(run, case["first_limit"])
        pre = len(run.problem.log)        # these trials are taken as given; an ordinary case judges a first Solve
        if pre > case["first_limit"]:
            fail("%d evaluations exceed itersLimit=%d" % (pre, case["first_limit"]))
        run.sp.itersLimit = limit
    sol = solve_counted(run, limit)
    for _ in range(case.get("again", 0)):
        before = len(run.problem.log)
        sol = solve_counted(run, limit)
        if len(run.problem.log) != before:
            fail("Solve called again on the finished solver made %d further evaluations (%d -> %d, itersLimit=%d)" %
                 (len(run.problem.log) - before, before, len(run.problem.log), limit))
    if run.problem.runaway:
        fail("Solve kept evaluating the objective beyond itersLimit+3 = %d evaluations" % (limit + 3))
    hist = run.history()
    ncalls = len(run.problem.log) - nlocal
    n = len(hist)
    if ncalls != n:
        fail("objective evaluated %d times but the listener saw %d trials" % (ncalls, n))
    if sol.numberOfGlobalTrials != ncalls:
        fail("reported numberOfGlobalTrials=%r but the objective was evaluated %d times" %
             (sol.numberOfGlobalTrials, ncalls))
    if n > limit:
        fail("%d evaluations exceed itersLimit=%d" % (n, limit))
    if n < 1:
        fail("Solve made no evaluation")
    model, info = replay_history(run.n, r, hist, check_rule=False)
    errored = "Exception was thrown" in run.stdout()
    classes = ["N=%d" % run.n]
    if case["recipe"].get("huge"):
        classes.append("values-of-magnitude-1e150-and-more")
    if errored:
        if not model.next_is_degenerate():
            fail("Solve swallowed an internal exception after %d trials (itersLimit=%d, eps=%r)" % (n, limit, eps))
        classes.append("float-resolution-stop")
        # the method refused an interval it can no longer subdivide: nothing was subdivided by that, so the reported
        # accuracy is still the smallest Hoelder length among the intervals the completed trials subdivided
        D = [i["D"] for i in info[1:]]
        acc = min(D) if D else math.inf
        rep = float(sol.solutionAccuracy)
        if not (rep == acc or (math.isfinite(acc) and abs(rep - acc) <= 4 * math.ulp(acc))):
            fail("the search stopped at the float resolution of the curve coordinate after %d trials: reported "
                 "accuracy %r differs from the smallest subdivided Hoelder length %r (it is the length of an interval "
                 "that was chosen but never subdivided)" % (n, rep, acc))
        return False, classes
    D = [i["D"] for i in info[1:]]          # D[j] belongs to trial j+2
    # trials 1..pre were requested explicitly (DoGlobalIteration does not consult the stop rule); every trial
    # after them was made by Solve and needs the criterion to be false when it was started
    for j, d in enumerate(D[:-1]):
        if hoelder_eps_cmp(d, eps) < 0 and n > max(pre, j + 2):
            fail("trial %d subdivided an interval of Hoelder length %r < eps=%r but Solve went on to %d "
                 "trials (%d of them requested through DoGlobalIteration)" % (j + 2, d, eps, n, pre))
    if n < limit:
        if n == 1:
            fail("search stopped after the first trial although itersLimit=%d" % limit)
        last = D[-1] if n > pre else min(D)
        if hoelder_eps_cmp(last, eps) > 0:
            fail("search stopped after %d < itersLimit=%d trials although the last subdivided interval has "
                 "Hoelder length %r >= eps=%r" % (n, limit, last, eps))
        if not (sol.solutionAccuracy < eps):
            fail("search stopped after %d < itersLimit=%d trials with reported accuracy %r not below eps=%r" %
                 (n, limit, sol.solutionAccuracy, eps))
    acc = min(D) if D else math.inf
    rep = float(sol.solutionAccuracy)
    if not (rep == acc or (math.isfinite(acc) and abs(rep - acc) <= 4 * math.ulp(acc))):
        fail("reported accuracy %r differs from the smallest subdivided Hoelder length %r" % (rep, acc))
    reason = "accuracy" if n < limit else ("both" if D and hoelder_eps_cmp(D[-1], eps) <= 0 else "budget")
    classes.append("stop=" + reason)
    tie = any(d == eps for d in D)
    if case.get("first_limit"):
        classes.append("budget-raised-then-solved-again")
    if nlocal:
        classes.append("refined-between-batches-and-solve")
    if "pre" in case:
        classes.append("pre-batches=%s" % ("all-budget" if pre == limit else ("some" if pre else "none")))
        classes.append("solve-again=%d" % case.get("again", 0))
    if limit <= 2:
        classes.append("itersLimit<=2")
    if eps >= 1:
        classes.append("eps>=1")
    if tie:
        classes.append("eps-tie")
    nontrivial = (reason == "accuracy" and n >= 3) or (reason == "budget" and limit >= 3) or limit <= 2 \
        or eps >= 1 or tie
    return nontrivial, classes, {"case": case, "trials": n, "stop": reason, "accuracy": rep}


def generated(ctx):
    hyp_run(ctx, cases(), body, ctx.budget)


SUBCHECKS = {"generated": generated}


def replay(kind, case):
    body(case)
