"""C06 - search information is a faithful, ordered and complete record of the trials."""
from hypothesis import strategies as st

from vlib import gen, painters
from vlib.agp import Run, replay_history
from vlib.runner import fail, hyp_run
from vlib.searchinv import check_search_data

LEVEL = "exploration"
RULE = ("Hypothesis-generated (objective incl. constant/step/quantised families, N=1..5, box, r, eps, "
        "itersLimit<=300, density 6/10/12, SolverParameters.startPoint set in a fifth of the cases; one case in "
        "eight is pushed to the float resolution of the curve coordinate: eps 1e-17..1e-300 on a kinked 1-D or "
        "coarse 2-D objective) driven by DoGlobalIteration(k) batches and/or Solve; between the calls "
        "a second solver on another problem may be created and stepped, and an observer may ask the solver's evolvent for "
        "the preimages of stored points and replace the problem object's bound attributes; a third of the cases refine (refineSolution=True, DoLocalRefinement between the calls, or both) and the record is compared with the global evaluations; a shipped static painter is "
        "attached in one case of sixteen (its objective probes are dropped from the log); objectives may carry a level of +-1e2..1e7; after EVERY call "
        "the search information is traversed and compared with the Problem.Calculate log, a fresh Evolvent and "
        "the items delivered to the listener. Non-trivial: >=8 trials and at least one trial inserted between "
        "two evaluated trials (both neighbours relinked). Distinct = distinct case digest.")
ASSUMPTIONS = [
    "the evaluations of a local refinement are not trials of the record (the record lists the global trials); which "
    "evaluations of a refining Solve are global is read from numberOfGlobalTrials",
    "interval length tolerance 1e-12 relative; stored point must be bit-equal to a fresh Evolvent's image",
    "several Solver instances have usually run in the same process before a case (shared-default regressions "
    "show up as aliasing between cases)",
]
NONTRIVIAL_FLOOR = {"quick": 150, "thorough": 1500}


# thorough tier: coverage-guided (atheris) drive of the same generator and oracle: kind -> (shards, cases per shard)
FUZZ = {"generated": (8, 1500)}


def plan(tier):
    total = 2000 if tier == "quick" else 40000
    return [("generated", 16, total // 16)]


@st.composite
def cases(draw):
    if draw(st.integers(0, 7)) == 0:
        recipe, params = draw(gen.resolution_case())
    else:
        recipe = draw(gen.problem_recipe(densities=(10, 10, 6, 12), styles=True, offsets=True, huge=True))
        iters = st.one_of(st.sampled_from([1, 2, 3, 30, 100, 300]), st.integers(5, 300))
        params = draw(gen.solver_params(recipe["n"], recipe["density"], iters, cheap=False))
    sp = draw(gen.start_points(recipe))
    if sp is not None:
        params = dict(params, startPoint=sp)
    total = draw(st.one_of(st.integers(0, 4), st.integers(5, min(max(5, params["itersLimit"]), 120))))
    ops = draw(gen.compositions(total)) if total else []
    if draw(st.booleans()) or not ops:
        ops = ops + ["solve"]
    case = {"recipe": recipe, "params": params, "ops": ops}
    if draw(st.integers(0, 3)) == 0:
        # another solver on another problem is created and stepped between the calls
        case["decoy"] = draw(gen.problem_recipe(dims=(1, 2, 3), styles=True))
    # an observer reads the record between the calls and asks the solver's evolvent for the preimage of stored points
    case["observer"] = draw(st.integers(0, 3)) == 0
    how = draw(st.sampled_from(["no", "no", "no", "solve", "explicit", "both"]))
    if how in ("solve", "both") and params["eps"] >= 1e-12:
        # refineSolution=True: every Solve ends with the local refinement; the refined optimum is a trial of its own,
        # the record keeps listing exactly the global trials
        case["refine"] = True
    if how in ("explicit", "both") and case["ops"]:
        # Solver.DoLocalRefinement between the calls, the search going on afterwards
        ops = list(case["ops"])
        ops.insert(draw(st.integers(1, len(ops))), "refine")
        if draw(st.booleans()):
            ops.append(draw(st.integers(1, 20)))
        case["ops"] = ops
    if draw(st.integers(0, 15)) == 7 and params["eps"] >= 1e-12:
        # a shipped painter is attached (it draws, and probes the objective, when the method stops)
        case["painter"] = draw(painters.static_painter_specs(recipe["n"]))
        if case["ops"][-1] != "solve":
            case["ops"] = case["ops"] + ["solve"]
    return case


def body(case):
    run = Run(case["recipe"], case["params"], refine=bool(case.get("refine")))
    cleanup = painters.attach(run, case["painter"]) if case.get("painter") else None
    try:
        return _drive(case, run)
    finally:
        if cleanup:
            cleanup()


def _drive(case, run):
    # runs pushed to the float resolution are the ones in which a degenerate interval can send the method or the
    # queue into a loop that evaluates nothing: bound every call by executed lines
    # (not with a painter attached: its 150 x 150 probes of the objective are legitimate work the bound knows nothing of;
    # such a case is left to the CPU-time alarm and its re-run)
    run.line_guard = (case["params"]["eps"] < 1e-12 or bool(case["recipe"].get("huge"))) and not case.get("painter")
    steps = 0
    glog = []          # the evaluations of the global search (those of a local refinement are no trials of the record)
    log = run.problem.log
    for op in case["ops"]:
        before = len(log)
        try:
            if op == "solve":
                g0 = run.results().numberOfGlobalTrials if log else 0
                run.solve()
                glog += log[before:before + (run.results().numberOfGlobalTrials - g0)]
            elif op == "refine":
                if not log:
                    continue
                import contextlib
                with contextlib.redirect_stdout(run.out):
                    run.solver.DoLocalRefinement(5)
            else:
                run.step(op)
                glog += log[before:]
        except Exception as e:
            if "outside of interval" not in str(e):
                raise
            # the method refused a degenerate interval inside a batch: nothing was evaluated for it, so the
            # record must still be exactly the completed trials
            glog += log[before:]
            check_search_data(run, log=glog, who="after DoGlobalIteration(%r) stopped at the float resolution: " % (op,))
            return len(glog) >= 8, ["N=%d" % run.n, "float-resolution-stop"]
        steps += 1
        if case.get("decoy") is not None:
            if steps == 1:
                decoy = Run(case["decoy"], {"r": 2.5, "eps": 1e-3, "itersLimit": 50}, record=False)
            try:
                decoy.step(1)
            except Exception as e:
                if "outside of interval" not in str(e):
                    raise
        if case.get("observer") and steps == 1:
            # the caller re-uses the problem object for something else: its bound attributes are replaced by those of
            # a smaller box.  The running search keeps the box it was started on
            import numpy as np
            lo, hi = case["recipe"]["lower"], case["recipe"]["upper"]
            run.problem.lowerBoundOfFloatVariables = np.array([a + 0.25 * (b - a) for a, b in zip(lo, hi)])
            run.problem.upperBoundOfFloatVariables = np.array([b - 0.25 * (b - a) for a, b in zip(lo, hi)])
        if case.get("observer"):
            ev = run.solver.evolvent
            stored = [it for it in run.solver.searchData][1:-1]
            for it in stored[:3] + stored[-2:]:
                ev.GetPreimages(it.GetY().floatVariables)
                ev.GetInverseImage(it.GetY().floatVariables)
            if stored:
                best = run.results().bestTrials[0]
                ev.GetPreimages(best.point.floatVariables)
        items = run.rec.items if len(run.rec.items) == len(glog) else None
        check_search_data(run, log=glog, items=items, who="after call %d (%r): " % (steps, op))
    hist = run.history()
    model, info = replay_history(run.n, case["params"]["r"], hist, check_rule=False)
    # a trial inserted between two evaluated trials: neither neighbour is an end point
    xs = sorted(h[0] for h in hist)
    between = 0
    seen = []
    for x, _ in hist:
        import bisect
        i = bisect.bisect_left(seen, x)
        if 0 < i < len(seen):
            between += 1
        seen.insert(i, x)
    nontrivial = len(hist) >= 8 and between >= 1
    if "Exception was thrown" in run.stdout():
        classes_extra = ["float-resolution-stop"]
    else:
        classes_extra = []
    if case["params"].get("startPoint") is not None:
        classes_extra.append("startPoint-set")
    if case.get("decoy") is not None:
        classes_extra.append("decoy-solver")
    if case.get("observer"):
        classes_extra.append("observer-queries-evolvent")
    if case.get("painter"):
        classes_extra.append("painter=" + case["painter"]["kind"])
    if case["recipe"].get("huge"):
        classes_extra.append("values-of-magnitude-1e150-and-more")
    if case.get("refine") or "refine" in case["ops"]:
        classes_extra.append("local-refinement:" + ("+".join((["in-Solve"] if case.get("refine") else []) +
                                                             (["explicit"] if "refine" in case["ops"] else []))))
    classes = classes_extra + ["N=%d" % run.n, "calls=%d" % min(steps, 5),
               "trials>=8" if len(hist) >= 8 else "trials<8", "interior-insert" if between else "no-interior-insert"]
    return nontrivial, classes, {"case": case, "trials": len(hist), "interior_inserts": between}


def generated(ctx):
    hyp_run(ctx, cases(), body, ctx.budget)


SUBCHECKS = {"generated": generated}


def replay(kind, case):
    body(case)
