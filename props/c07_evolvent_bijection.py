"""C07 - the evolvent visits every grid cell of the box exactly once."""
from hypothesis import strategies as st

from vlib import evo
from vlib.runner import fail, hyp_run

LEVEL = "exploration"
RULE = ("(a) exhaustive: for every N in 2..5 and every level m+1 with N*(m+1) <= LIMIT (quick 20, thorough 24) "
        "EVERY subinterval i of level m is mapped (first and last representable point) and its 2^N children at "
        "level m+1 must be 2^N distinct cell centres inside the cell of i - with the directly enumerated "
        "bijection at the base levels (all (N,m) with N*m<=14) this is the bijection at every level up to LIMIT "
        "by induction; (b) Hypothesis-generated deep cases: N in 2..5, N*m<=50, index weighted to 0, T-1, the "
        "last 2e6 subintervals, powers of two +-1 and sub-cube boundaries, offset inside the subinterval (first, "
        "second, middle, last, uniform; exact dyadic n/2^53), arbitrary doubles, x=1, arbitrary boxes, the object configured through the constructor, through SetBounds "
        "on a new or an already used object (also one built for an integer box written with Python ints), through "
        "float64 arrays the caller overwrites afterwards, through integer-typed bounds, or driven through a query history (each query preceded by the same "
        "query, an inverse query and a SetBounds round trip through another box); (c) N=1 any "
        "m: containment in cell i. Non-trivial (generated part): index not in {0,T-1} and N*m>=20; exhaustive "
        "part: every subinterval counts once. Distinct = distinct (N,m,i,offset,box).")
ASSUMPTIONS = [
    "x values are exact dyadic rationals n/2^53, so the intended subinterval is hit exactly; the index of an "
    "arbitrary double is floor(Fraction(x)*2^(N*m))",
    "for non-unit boxes a cell centre is recognised within the rounding allowance of the affine map "
    "8*2^-52*(max|bound|/width+1)*2^m cells; cases where that exceeds 0.01 cell are generated with mild boxes only",
    "box containment tolerance 1e-12*(|lower|+|upper|+width)",
    "N=1: the code uses the affine map, so the image is a point of cell i (closed), not its centre",
]
EXHAUSTIVE_SCOPE = {"quick": "all subintervals of all levels with N*(m+1) <= 20, N=2..5 (incl. N=2, m=10)",
                    "thorough": "all subintervals of all levels with N*(m+1) <= 24, N=2..5"}
NONTRIVIAL_FLOOR = {"quick": 1000, "thorough": 10000}
LIMIT = {"quick": 20, "thorough": 24}
WATCHDOG_S = {"quick": 1500, "thorough": 4 * 3600}


# thorough tier: coverage-guided (atheris) drive of the same generator and oracle: kind -> (shards, cases per shard)
FUZZ = {"generated": (12, 20000), "dim1": (4, 10000)}


def plan(tier):
    return [("exhaustive", 16, 0), ("generated", 16, (20000 if tier == "quick" else 400000) // 16),
            ("dim1", 2, (2000 if tier == "quick" else 40000) // 2)]


VIAS = ("ctor", "ctor", "ctor", "setbounds", "used-setbounds", "history", "aliased", "int-typed", "int-ctor-setbounds",
        "density-assigned")
vias = st.sampled_from(VIAS)


class HistoryEvolvent:
    """A real Evolvent reached through a history: the properties quantify over every query on an object
    configured for (box, N, m), however it got there.  Every query is preceded by the same query, by a query of
    the other direction and by a SetBounds round trip through another box; the answer handed to the oracle is the
    object's answer to the final, real query."""

    def __init__(self, ev, lo, hi):
        self.ev, self.lo, self.hi = ev, list(lo), list(hi)
        self.other = ([a - 3.0 * (b - a) - 1.0 for a, b in zip(lo, hi)], [b + 2.0 * (b - a) + 0.5 for a, b in zip(lo, hi)])
        self.mid = [(a + b) / 2.0 for a, b in zip(lo, hi)]
        import math
        ints = [int(math.ceil(a)) for a in lo]
        # an integer-typed point of the box, if there is one (the repository's own test calls GetPreimages([0]))
        self.intpoint = ints if all(a <= k <= b for k, a, b in zip(ints, lo, hi)) else None

    def _churn(self, replay):
        replay()
        self.ev.GetInverseImage(list(self.mid))
        if self.intpoint is not None:
            self.ev.GetPreimages(list(self.intpoint))
        self.ev.GetImage(0.3)
        self.ev.SetBounds(list(self.other[0]), list(self.other[1]))
        replay()
        self.ev.SetBounds(list(self.lo), list(self.hi))

    def GetImage(self, x):
        self._churn(lambda: self.ev.GetImage(x))
        if len(self.lo) >= 2:
            # ... and by a round trip on the object itself: a point of the same cell that is not its centre is taken
            # back to the curve, and the image is asked for at exactly the abscissa that came back (the left end of the
            # subinterval of x, whose image is the same cell centre)
            y0 = self.ev.GetImage(x)
            m = int(self.ev.evolventDensity)
            y = [float(c) + (0.21 if i % 2 else -0.17) * (b - a) / 2.0 ** m
                 for i, (c, a, b) in enumerate(zip(y0, self.lo, self.hi))]
            xi = self.ev.GetInverseImage(y)
            return self.ev.GetImage(xi)
        return self.ev.GetImage(x)

    def GetInverseImage(self, y):
        import copy
        self._churn(lambda: self.ev.GetInverseImage(copy.copy(y)))
        return self.ev.GetInverseImage(y)

    def GetPreimages(self, y):
        import copy
        self._churn(lambda: self.ev.GetPreimages(copy.copy(y)))
        return self.ev.GetPreimages(y)


def make(n, m, lo=None, hi=None, via="ctor"):
    """Evolvent for (box, N, m), configured through the constructor, through SetBounds (on a new or an already
    used object), or driven through a query history (HistoryEvolvent)."""
    from iOpt.evolvent.evolvent import Evolvent
    if lo is None:
        lo, hi = evo.unit_bounds(n)
    if via == "int-typed" and all(float(v).is_integer() for v in list(lo) + list(hi)):
        # integer-valued bounds written as Python ints or as an integer array, as the repository's own tests do
        ilo, ihi = [int(v) for v in lo], [int(v) for v in hi]
        if (n + m) % 2:
            return Evolvent(ilo, ihi, n, m)
        import numpy as np
        return Evolvent(np.array(ilo), np.array(ihi), n, m)
    if via == "aliased":
        # the caller passes float64 arrays and later re-uses them for something else
        import numpy as np
        alo, ahi = np.array(lo, dtype=np.double), np.array(hi, dtype=np.double)
        ev = Evolvent(alo, ahi, n, m) if (n + m) % 2 else Evolvent([0.0] * n, [1.0] * n, n, m)
        if not (n + m) % 2:
            ev.SetBounds(alo, ahi)
        alo[:] = alo - 7.0 * (ahi - alo) - 3.0
        ahi[:] = ahi * 0.0 + 1e3
        return ev
    if via in ("ctor", "int-typed"):
        return Evolvent(lo, hi, n, m)
    if via == "history":
        return HistoryEvolvent(Evolvent(lo, hi, n, m), lo, hi)
    if via == "density-assigned":
        # built with another density, the public attribute evolventDensity assigned afterwards (what a solver does
        # that keeps its evolvent in step with its parameters object)
        ev = Evolvent(lo, hi, n, 7 if m != 7 else 9)
        ev.GetImage(0.3)
        ev.evolventDensity = m
        return ev
    if via == "int-ctor-setbounds":
        # built for an integer box written with Python ints (as the repository's tests do), then re-configured
        ev = Evolvent([-1] * n, [1] * n, n, m)
        ev.SetBounds(list(lo), list(hi))
        return ev
    olo = [a + 0.25 * (b - a) - 1.0 for a, b in zip(lo, hi)]
    ohi = [b + 1.5 * (b - a) + 2.0 for a, b in zip(lo, hi)]
    ev = Evolvent(olo, ohi, n, m)
    if via == "used-setbounds":
        y = ev.GetImage(0.7)
        ev.GetInverseImage(y)
        ev.GetImage(0.0)
    ev.SetBounds(list(lo), list(hi))
    return ev


def exhaustive(ctx):
    limit = LIMIT[ctx.tier]
    ctx.exhaustive = True
    # base: direct bijection of whole (N, m) grids, N*m <= 14, distributed round-robin over the shards
    base = [(n, m) for n in (2, 3, 4, 5) for m in range(1, 15) if n * m <= 14]
    for k, (n, m) in enumerate(base):
        if k % ctx.nshards != ctx.shard:
            continue
        ev = make(n, m)
        nm = n * m
        seen = set()
        for i in range(1 << nm):
            c = evo.cells_unit(ev.GetImage(evo.x_of(evo.num_first(i, nm))), m)
            if c is None:
                ctx.violation({"n": n, "m": m, "i": i, "off": 0, "lower": None, "upper": None},
                              "image of subinterval %d is not a cell centre (N=%d, m=%d)" % (i, n, m), "point")
                return
            seen.add(c)
        ctx.count(1 << nm, ["base-bijection N=%d" % n])
        if len(seen) != (1 << nm):
            ctx.violation({"n": n, "m": m}, "N=%d, m=%d: %d subintervals reach only %d distinct cells" %
                          (n, m, 1 << nm, len(seen)), "grid")
            return
    # induction step: every subinterval of level m, its children at level m+1
    for n in (2, 3, 4, 5):
        m = 1
        while n * (m + 1) <= limit:
            evp, evc = make(n, m), make(n, m + 1)
            nm, nmc = n * m, n * (m + 1)
            kids = 1 << n
            for i in range(ctx.shard, 1 << nm, ctx.nshards):
                msg = check_children(evp, evc, n, m, i)
                if msg:
                    ctx.violation({"n": n, "m": m, "i": i}, msg, "children")
                    return
                if i < 3 * ctx.nshards and m >= 3 and ctx.shard == 0:
                    ctx.record({"n": n, "m": m, "i": i}, True, [])
            cnt = len(range(ctx.shard, 1 << nm, ctx.nshards))
            # every one of these is a distinct case; non-trivial from level 3 on (counted, digests not stored)
            ctx.count(cnt, ["induction N=%d" % n], nontrivial=cnt if m >= 3 else 0)
            m += 1


def check_children(evp, evc, n, m, i):
    nm, nmc = n * m, n * (m + 1)
    a = evo.cells_unit(evp.GetImage(evo.x_of(evo.num_first(i, nm))), m)
    b = evo.cells_unit(evp.GetImage(evo.x_of(evo.num_last(i, nm))), m)
    if a is None or b is None:
        return "image of subinterval %d is not a cell centre (N=%d, m=%d)" % (i, n, m)
    if a != b:
        return "first and last point of subinterval %d map to different cells %r, %r (N=%d, m=%d)" % (i, a, b, n, m)
    seen = set()
    for k in range(1 << n):
        j = (i << n) + k
        c = evo.cells_unit(evc.GetImage(evo.x_of(evo.num_first(j, nmc))), m + 1)
        if c is None:
            return "image of subinterval %d is not a cell centre (N=%d, m=%d)" % (j, n, m + 1)
        if tuple(v >> 1 for v in c) != a:
            return ("child subinterval %d (level %d) maps to cell %r outside the cell %r of its parent %d "
                    "(N=%d)" % (j, m + 1, c, a, i, n))
        seen.add(c)
    if len(seen) != (1 << n):
        return "the %d children of subinterval %d (N=%d, level %d) reach only %d distinct cells" % (
            1 << n, i, n, m + 1, len(seen))
    return None


@st.composite
def deep_cases(draw):
    n, m = draw(evo.nm_pairs())
    nm = n * m
    kind = draw(st.sampled_from(["index", "index", "index", "double", "one"]))
    lo, hi = draw(evo.evo_boxes(n, m))
    case = {"n": n, "m": m, "lower": lo, "upper": hi, "kind": kind, "via": draw(vias)}
    if kind == "index":
        case["i"] = draw(evo.indices(nm))
        case["offs"] = [draw(evo.offsets(nm)) for _ in range(3)]
    elif kind == "double":
        case["x"] = draw(st.one_of(st.floats(0.0, 1.0, allow_nan=False),
                                   st.floats(0.0, 2e-9).map(lambda d: 1.0 - d),
                                   st.integers(1, 60).map(lambda k: 1.0 - 2.0 ** -k)))
    return case


def deep_body(case):
    n, m, lo, hi = case["n"], case["m"], case["lower"], case["upper"]
    nm = n * m
    T = 1 << nm
    via = case.get("via", "ctor")
    ev = make(n, m, lo, hi, via)
    evu = make(n, m, None, None, via)
    if case["kind"] == "index":
        i = case["i"]
        xs = [evo.x_of(evo.num_first(i, nm) + o) for o in [0] + case["offs"]]
    elif case["kind"] == "double":
        xs = [case["x"]]
        i = evo.index_of(case["x"], nm)
    else:
        xs = [1.0]
        i = T - 1
    ref = None
    for x in xs:
        if evo.index_of(x, nm) != i:
            raise RuntimeError("harness: x=%r is not in subinterval %d" % (x, i))
        yu = evu.GetImage(x)
        cu = evo.cells_unit(yu, m)
        if cu is None:
            fail("N=%d, m=%d: image %r of x=%r (subinterval %d) is not a cell centre of the unit grid" %
                 (n, m, list(yu), x, i))
        y = ev.GetImage(x)
        if not evo.in_box(y, lo, hi):
            fail("N=%d, m=%d: image %r of x=%r lies outside the box [%r, %r]" % (n, m, list(y), x, lo, hi))
        cb, worst = evo.cells_box(y, lo, hi, m)
        if max(evo.cell_allowance(lo, hi, m)) <= 0.01:
            if cb is None:
                fail("N=%d, m=%d: image %r of x=%r is not a cell centre of the box grid [%r, %r]" %
                     (n, m, list(y), x, lo, hi))
            if cb != cu:
                fail("N=%d, m=%d: x=%r maps to cell %r in the box but to cell %r in the unit cube" %
                     (n, m, x, cb, cu))
        if ref is None:
            ref = cu
        elif cu != ref:
            fail("N=%d, m=%d: points %r of subinterval %d map to different cells %r and %r" %
                 (n, m, xs, i, ref, cu))
    # x = 1 and the last subinterval share a cell
    if i == T - 1:
        c1 = evo.cells_unit(evu.GetImage(1.0), m)
        if c1 != ref:
            fail("N=%d, m=%d: x=1 maps to cell %r but the last subinterval maps to %r" % (n, m, c1, ref))
    # local bijection one level down
    if n * (m + 1) <= 50:
        msg = check_children(evu, make(n, m + 1), n, m, i)
        if msg:
            fail(msg)
    tailpos = "head" if i == 0 else ("last" if i == T - 1 else ("tail<2e6" if T - 1 - i <= 2_000_000 else "inner"))
    classes = ["N=%d" % n, "Nm>=20" if nm >= 20 else "Nm<20", "kind=" + case["kind"], "index=" + tailpos,
               "via=" + via]
    return (i not in (0, T - 1) and nm >= 20), classes


def generated(ctx):
    hyp_run(ctx, deep_cases(), deep_body, ctx.budget)


@st.composite
def dim1_cases(draw):
    from vlib import gen
    m = draw(st.integers(1, 50))
    b = draw(gen.boxes(1))
    kind = draw(st.sampled_from(["index", "double", "one"]))
    case = {"m": m, "lower": b["lower"], "upper": b["upper"], "kind": kind, "via": draw(vias)}
    if kind == "index":
        case["i"] = draw(evo.indices(m))
        case["off"] = draw(evo.offsets(m))
    elif kind == "double":
        case["x"] = draw(st.floats(0.0, 1.0, allow_nan=False))
    return case


def dim1_body(case):
    m, lo, hi = case["m"], case["lower"][0], case["upper"][0]
    T = 1 << m
    ev = make(1, m, [lo], [hi], case.get("via", "ctor"))
    if case["kind"] == "index":
        x = evo.x_of(evo.num_first(case["i"], m) + case["off"])
    elif case["kind"] == "double":
        x = case["x"]
    else:
        x = 1.0
    i = evo.index_of(x, m)
    y = float(ev.GetImage(x)[0])
    w = hi - lo
    t = 1e-12 * (abs(lo) + abs(hi) + w)
    if not (lo - t <= y <= hi + t):
        fail("N=1: image %r of x=%r lies outside [%r, %r]" % (y, x, lo, hi))
    a, b = lo + i * w / T, lo + (i + 1) * w / T
    if not (a - t <= y <= b + t):
        fail("N=1, m=%d: image %r of x=%r (subinterval %d) lies outside its cell [%r, %r]" % (m, y, x, i, a, b))
    return (0 < i < T - 1), ["N=1", "kind=" + case["kind"], "via=" + case.get("via", "ctor")]


def dim1(ctx):
    hyp_run(ctx, dim1_cases(), dim1_body, ctx.budget)


SUBCHECKS = {"exhaustive": exhaustive, "generated": generated, "dim1": dim1}


def replay(kind, case):
    if kind == "generated":
        deep_body(case)
    elif kind == "dim1":
        dim1_body(case)
    elif kind == "children":
        n, m, i = case["n"], case["m"], case["i"]
        msg = check_children(make(n, m), make(n, m + 1), n, m, i)
        if msg:
            fail(msg)
    elif kind == "point":
        n, m, i = case["n"], case["m"], case["i"]
        if evo.cells_unit(make(n, m).GetImage(evo.x_of(evo.num_first(i, n * m))), m) is None:
            fail("image of subinterval %d is not a cell centre (N=%d, m=%d)" % (i, n, m))
    elif kind == "grid":
        n, m = case["n"], case["m"]
        ev = make(n, m)
        seen = {evo.cells_unit(ev.GetImage(evo.x_of(evo.num_first(i, n * m))), m) for i in range(1 << (n * m))}
        if len(seen) != (1 << (n * m)) or None in seen:
            fail("N=%d, m=%d: not a bijection onto the grid (%d distinct cells)" % (n, m, len(seen)))
