"""C10 - the declared optimum of every benchmark instance is its true global minimum."""
import math

import numpy as np

from vlib import bench
from vlib.runner import fail, Violation, guarded

LEVEL = "exploration"
RULE = ("Every shipped instance is visited (Hill 0..999, Shekel 0..999, Grishagin 1..100, GKLS 2..5 x 1..100, "
        "Shekel4 1..3, Rastrigin and XSquared dimension 1..8, StronginC3; 2420 instances) in both tiers; the "
        "thorough tier uses denser grids and more generated points. Per instance: (a) the real Calculate at the "
        "declared point vs the declared value (1e-4); (b) counter-example search for a point lower than declared - "
        "2e-3*max(1,|f*|): uniform grid (vectorised re-implementation, cross-checked against the real Calculate in "
        "the same run) + Weyl-sequence points + bounded local descent from the best candidates, every reported "
        "point re-evaluated by the real code; 1-D families: 1e6-point grid + tabulated Lipschitz constant = "
        "certificate up to L*h/2; GKLS: generated points in every ball and outside; StronginC3: feasible set only; "
        "(c) bounded descent from the declared point must end within 0.5% of the side per coordinate at a value not "
        "above the best found by more than the (b) tolerance. Before an instance is built its predecessor in the family and the instance itself are "
        "built and evaluated once in the same process (a sweep over the family), their own optimum records being shifted in place afterwards, and a younger sibling is built right "
        "after it and stays alive during the checks, so a declaration or a function that depends on construction "
        "history or on other live instances is seen. Non-trivial: an instance with a second local minimum "
        "within 10% of the value range of the global one. Distinct by construction (one case per instance).")
ASSUMPTIONS = [
    "in two or more dimensions the global minimum is searched, not certified (grid resolution: Grishagin 1000^2 / "
    "2000^2, Shekel4 36^4 / 60^4 plus descents from every centre, StronginC3 2000^2 / 4000^2)",
    "1-D certificate uses the published Lipschitz constants, themselves checked by C18",
    "Rastrigin and XSquared are separable; separability is cross-checked against the real Calculate on generated "
    "points, then the 1-D certificate is applied per coordinate",
    "GKLS relies on the structure checked by C14 (paraboloid outside the balls, values >= f_i inside ball i) and "
    "re-samples it with the real Calculate",
]
EXHAUSTIVE_SCOPE = {"quick": "all 2420 shipped instances (family members); the box of each is searched, not enumerated",
                    "thorough": "all 2420 shipped instances; denser search"}
NONTRIVIAL_FLOOR = {"quick": 300, "thorough": 300}
WATCHDOG_S = {"quick": 1800, "thorough": 6 * 3600}
_HILL = {}


def plan(tier):
    n = 1_000_001 if tier == "quick" else 4_000_001
    if n not in _HILL:
        _HILL.clear()
        _HILL[n] = bench.HillGrid(n)
    return [("instances", 16, 0)]


def instances():
    out = []
    for fam, args in bench.FAMILIES.items():
        for a in args:
            if fam in ("rastrigin", "xsquared") and a > 8:
                continue
            out.append((fam, a))
    return out


def weyl(k, dim, seed):
    al = [0.7548776662466927, 0.5698402909980532, 0.8191725133961645, 0.6710436067037893, 0.5497004779019703,
          0.4502995220980297, 0.3688766447260315, 0.3021704393070635]
    return np.array([((seed * 0.6180339887498949 + (k + 1) * al[i % 8] * (1 + i // 8)) % 1.0) for i in range(dim)])


def tol_of(fstar):
    return 2e-3 * max(1.0, abs(fstar))


def common_a(prob, who):
    pt, val = bench.declared(prob)
    got = bench.real_eval(prob, pt)
    if not (abs(got - val) <= 1e-4):            # written so that a NaN objective fails too
        fail(who + "objective at the declared optimum point %r is %r but the declared value is %r" % (pt, got, val))
    return pt, val


def report_lower(prob, who, y, val):
    """A candidate lower point: confirm with the real code before reporting."""
    y = [float(v) for v in y]
    lo, hi = bench.bounds(prob)
    y = [min(max(v, a), b) for v, a, b in zip(y, lo, hi)]
    got = bench.real_eval(prob, y)
    if got != got:
        fail(who + "the objective is NaN at the box point %r" % (y,))
    if got < val - tol_of(val):
        fail(who + "point %r has value %r, lower than the declared optimum value %r by more than %g" %
             (y, got, val, tol_of(val)))
    return got


def descend(prob, x0, feasible=None):
    from scipy.optimize import minimize
    lo, hi = bench.bounds(prob)
    res = minimize(lambda y: bench.real_eval(prob, y), np.array(x0, dtype=float), method="L-BFGS-B",
                   bounds=list(zip(lo, hi)), options={"maxiter": 200, "ftol": 1e-14, "gtol": 1e-10})
    x = np.clip(res.x, lo, hi)
    return [float(v) for v in x], bench.real_eval(prob, x)


def common_c(prob, who, pt, val, best_found):
    lo, hi = bench.bounds(prob)
    x, fx = descend(prob, pt)
    if fx > bench.real_eval(prob, pt):
        x, fx = list(pt), bench.real_eval(prob, pt)
    for i, (a, b, u, v) in enumerate(zip(pt, x, lo, hi)):
        if abs(a - b) > 5e-3 * (v - u):
            fail(who + "descent from the declared point %r ends at %r: coordinate %d moves by more than 0.5%% of "
                 "the side" % (pt, x, i))
    if fx > best_found + tol_of(val):
        fail(who + "the local minimum next to the declared point has value %r but a point with value %r exists" %
             (fx, best_found))


# ------------------------------------------------------------------ per family

def check_1d(kind, fn, tier, seed):
    who = "%s(%d): " % (kind, fn)
    prob = bench.construct(kind, fn)
    pt, val = common_a(prob, who)
    if kind == "hill":
        grid = _HILL[max(_HILL)] if _HILL else bench.HillGrid(1_000_001)
        import iOpt.problems.Hill.hill_generation as g
        L = float(g.lConstantHill[fn])
    else:
        grid = bench.ShekelGrid(1_000_001 if tier == "quick" else 4_000_001)
        import iOpt.problems.Shekel.shekel_generation as g
        L = float(g.lConstantHill[fn])
    lo, hi = float(grid.x[0]), float(grid.x[-1])
    real = False
    if not bench.agrees_1d(grid, prob, fn, [lo + float(weyl(k, 1, seed + fn)[0]) * (hi - lo) for k in range(4)]):
        grid, real = bench.RealGrid(kind), True      # the code is no longer the documented formula
    v = grid.f(fn)
    i = int(v.argmin())
    bval, bloc = bench.polish_1d(lambda t: grid.f_at(fn, t), grid.x, i, "min")
    report_lower(prob, who, [bloc], val)
    h = (hi - lo) / (len(grid.x) - 1)
    cert = L * 1.01 * h / 2.0          # nothing lies more than this below the grid minimum
    if not real and float(v.min()) - cert < val - tol_of(val):
        raise RuntimeError("harness: certificate too coarse for %s(%d)" % (kind, fn))
    common_c(prob, who, pt, val, bval)
    idx = bench.local_extrema_1d(grid.x, v, "min")
    vals = np.sort(v[idx])
    span = float(v.max() - v.min())
    return len(vals) > 1 and (vals[1] - vals[0]) <= 0.1 * span, \
        ({"real_code_fallback": True} if real else {"certified_resolution": cert})


def check_grishagin(fn, tier, seed):
    who = "grishagin(%d): " % fn
    prob = bench.construct("grishagin", fn)
    pt, val = common_a(prob, who)
    n = 1000 if tier == "quick" else 2000
    xs, ys, V = bench.grishagin_grid(prob, n + 1)
    ok = True
    for k in range(4):
        u = weyl(k, 2, seed + fn)
        i, j = int(u[0] * n), int(u[1] * n)
        b = bench.real_eval(prob, [xs[i], ys[j]])
        if abs(V[i, j] - b) > 1e-9 * (1 + abs(b)):
            ok = False
    if not ok:                                   # the code is no longer the documented formula: real code only
        n = 160
        xs = ys = np.linspace(0, 1, n + 1)
        V = np.array([[bench.real_eval(prob, [a, b]) for b in ys] for a in xs])
    # local minima of the grid
    P = np.pad(V, 1, constant_values=np.inf)
    loc = np.ones_like(V, dtype=bool)
    for dx, dy in ((0, 1), (1, 0), (0, -1), (-1, 0), (1, 1), (1, -1), (-1, 1), (-1, -1)):
        loc &= V <= P[1 + dx:1 + dx + V.shape[0], 1 + dy:1 + dy + V.shape[1]]
    ii, jj = np.nonzero(loc)
    order = np.argsort(V[ii, jj])
    best = math.inf
    for k in order[:6]:
        x, fx = descend(prob, [xs[ii[k]], ys[jj[k]]])
        best = min(best, fx)
        report_lower(prob, who, x, val)
    common_c(prob, who, pt, val, best)
    vals = np.sort(V[ii, jj])
    span = float(V.max() - V.min())
    return len(vals) > 1 and (vals[1] - vals[0]) <= 0.1 * span, {}


def check_gkls(arg, tier, seed):
    dim, k = arg
    who = "gkls(%d, %d): " % (dim, k)
    prob = bench.construct("gkls", arg)
    pt, val = common_a(prob, who)
    m = prob.function.GKLS_minima
    M, f, rho = np.array(m.local_min), np.array(m.f), np.array(m.rho)
    npts = 60 if tier == "quick" else 600
    best = math.inf
    cnt = 0
    for i in range(1, len(f)):
        # minimiser itself and generated points in ball i (radius fractions over the whole range)
        report_lower(prob, who, M[i], val)
        best = min(best, bench.real_eval(prob, M[i]))
        for j in range(npts):
            u = weyl(j, dim + 1, seed + 31 * i + k)
            d = u[:dim] - 0.5
            nd = np.linalg.norm(d)
            if nd == 0:
                continue
            y = M[i] + d / nd * rho[i] * u[dim] ** (1.0 / dim)
            if np.any(np.abs(y) > 1):
                continue
            best = min(best, report_lower(prob, who, y, val))
            cnt += 1
    for j in range(npts * 5):
        y = 2.0 * weyl(j, dim, seed + 7 * k + dim) - 1.0
        best = min(best, report_lower(prob, who, y, val))
    common_c(prob, who, pt, val, best)
    others = np.sort(f[2:])
    return bool(len(others) and others[0] - (-1.0) <= 0.1 * (max(4.0 * dim, f.max()) + 1.0)), {}


def check_shekel4(fn, tier, seed):
    import iOpt.problems.Shekel4.shekel4_generation as g
    who = "shekel4(%d): " % fn
    prob = bench.construct("shekel4", fn)
    pt, val = common_a(prob, who)
    n = 36 if tier == "quick" else 60
    ax = np.linspace(0, 10, n + 1)
    best = math.inf
    bestp = None
    for a0 in ax:                                        # slab by slab to bound memory
        G = np.stack(np.meshgrid([a0], ax, ax, ax, indexing="ij"), axis=-1).reshape(-1, 4)
        v = bench.shekel4_vec(fn, G)
        i = int(v.argmin())
        if v[i] < best:
            best, bestp = float(v[i]), G[i]
    b = bench.real_eval(prob, bestp)
    if abs(b - best) > 1e-9 * (1 + abs(b)):                 # code differs from the formula: real code only
        ax = np.linspace(0, 10, 11)
        G = np.stack(np.meshgrid(ax, ax, ax, ax, indexing="ij"), axis=-1).reshape(-1, 4)
        v = np.array([bench.real_eval(prob, q) for q in G])
        bestp = G[int(v.argmin())]
    starts = [bestp] + [g.a[i] for i in range(int(g.maxI[fn - 1]))]
    found = math.inf
    for s in starts:
        x, fx = descend(prob, s)
        found = min(found, fx)
        report_lower(prob, who, x, val)
    for j in range(2000 if tier == "quick" else 20000):
        found = min(found, report_lower(prob, who, 10.0 * weyl(j, 4, seed + fn), val))
    common_c(prob, who, pt, val, found)
    return True, {}


def check_separable(fam, dim, tier, seed):
    who = "%s(%d): " % (fam, dim)
    prob = bench.construct(fam, dim)
    pt, val = common_a(prob, who)
    lo, hi = bench.bounds(prob)
    g1 = bench.rastrigin_1d if fam == "rastrigin" else (lambda x: x * x)
    for j in range(50):
        y = np.array(lo) + weyl(j, dim, seed + dim) * (np.array(hi) - np.array(lo))
        a, b = float(np.sum(g1(y))), bench.real_eval(prob, y)
        if abs(a - b) > 1e-9 * (1 + abs(b)):
            fail(who + "the objective is not the separable sum it is documented to be: %r vs %r at %r" % (b, a, list(y)))
        report_lower(prob, who, y, val)
    n = 1_000_001
    x = np.linspace(lo[0], hi[0], n)
    v = g1(x)
    L = 2 * max(abs(lo[0]), abs(hi[0])) + (20 * math.pi if fam == "rastrigin" else 0.0)
    cert = L * (hi[0] - lo[0]) / (n - 1) / 2.0
    i = int(v.argmin())
    report_lower(prob, who, [x[i]] * dim, val)
    if dim * (float(v.min()) - cert) < val - tol_of(val):
        raise RuntimeError("harness: certificate too coarse for %s(%d)" % (fam, dim))
    common_c(prob, who, pt, val, dim * float(v.min()))
    return fam == "rastrigin" and dim >= 2, {"certified_resolution": dim * cert}


def check_strongin(tier, seed):
    from iOpt.trial import FunctionType
    who = "stronginC3: "
    prob = bench.construct("stronginC3", None)
    pt, val = common_a(prob, who)
    cons = [bench.real_eval(prob, pt, FunctionType.CONSTRAINT, i) for i in range(3)]
    if max(cons) > 1e-4:
        fail(who + "the declared optimum %r violates a constraint: %r" % (pt, cons))
    n = 2000 if tier == "quick" else 4000
    x1, x2 = np.meshgrid(np.linspace(0, 4, n + 1), np.linspace(-1, 3, n + 1), indexing="ij")
    obj, g1, g2, g3 = bench.strongin_vec(x1, x2)
    for j in range(20):
        u = weyl(j, 2, seed)
        y = [4 * u[0], -1 + 4 * u[1]]
        o, a, b, c = bench.strongin_vec(np.array(y[0]), np.array(y[1]))
        real = [bench.real_eval(prob, y)] + [bench.real_eval(prob, y, FunctionType.CONSTRAINT, i) for i in range(3)]
        if max(abs(p - q) for p, q in zip([float(o), float(a), float(b), float(c)], real)) > 1e-9 * (1 + max(map(abs, real))):
            n = 250                                      # code differs from the formula: real code only
            x1, x2 = np.meshgrid(np.linspace(0, 4, n + 1), np.linspace(-1, 3, n + 1), indexing="ij")
            ev = lambda t, c: np.array([[bench.real_eval(prob, [p, q], t, c) for p, q in zip(r1, r2)]
                                        for r1, r2 in zip(x1, x2)])
            obj = np.array([[bench.real_eval(prob, [p, q]) for p, q in zip(r1, r2)] for r1, r2 in zip(x1, x2)])
            g1, g2, g3 = (ev(FunctionType.CONSTRAINT, c) for c in range(3))
            break
    feas = (g1 <= 0) & (g2 <= 0) & (g3 <= 0)
    masked = np.where(feas, obj, np.inf)
    order = np.argsort(masked, axis=None)[:5]
    best = math.inf
    from scipy.optimize import minimize
    for k in order:
        i, j = np.unravel_index(k, masked.shape)
        y0 = [float(x1[i, j]), float(x2[i, j])]
        res = minimize(lambda y: bench.real_eval(prob, y), y0, method="SLSQP", bounds=[(0, 4), (-1, 3)],
                       constraints=[{"type": "ineq", "fun": (lambda y, c=c: -bench.real_eval(prob, y, FunctionType.CONSTRAINT, c))}
                                    for c in range(3)], options={"maxiter": 200, "ftol": 1e-14})
        for y in (y0, [float(v) for v in res.x]):
            cs = [bench.real_eval(prob, y, FunctionType.CONSTRAINT, c) for c in range(3)]
            if max(cs) <= 0:
                fy = bench.real_eval(prob, y)
                best = min(best, fy)
                if fy < val - tol_of(val):
                    fail(who + "feasible point %r has value %r, lower than the declared optimum %r" % (y, fy, val))
    # (c) the declared point must be within 0.5% of the side of the best feasible point found
    i, j = np.unravel_index(order[0], masked.shape)
    if best > val + tol_of(val) + 1e-4:
        fail(who + "no feasible point reaches the declared value %r (best feasible value found %r)" % (val, best))
    return True, {}


def predecessor(fam, arg):
    """The member a user sweeping the family would have built just before this one (None for the first)."""
    if fam in ("hill", "shekel"):
        return arg - 1 if arg > 0 else None
    if fam in ("grishagin", "shekel4", "rastrigin", "xsquared"):
        return arg - 1 if arg > 1 else None
    if fam == "gkls":
        dim, k = arg
        return (dim, k - 1) if k > 1 else ((dim - 1, 100) if dim > 2 else None)
    return None


def construction_history(fam, arg):
    """The statement is about every instance however the process got to it: build (and evaluate) the preceding
    member and the member itself once before the instance under test is built, as a sweep over the family does."""
    hist = []
    pred = predecessor(fam, arg)
    for a in ([pred] if pred is not None else []) + [arg]:
        p = bench.construct(fam, a)
        pt, _ = bench.declared(p)
        bench.real_eval(p, pt)
        # ... and the user shifts that instance's own optimum record in place (it is theirs to modify)
        try:
            arr = p.knownOptimum[0].point.floatVariables
            for k in range(len(arr)):
                arr[k] = arr[k] + 0.04
            p.knownOptimum[0].functionValues[0].value = 4242.0
        except (TypeError, ValueError, IndexError):
            pass
        hist.append(p)
    return hist


def successor(fam, arg):
    """A younger sibling: the next member of the family (wrapping around)."""
    if fam in ("hill", "shekel"):
        return (arg + 1) % 1000
    if fam == "grishagin":
        return arg % 100 + 1 if arg % 10 else arg - 9        # stay inside the decade: cheap to construct
    if fam == "shekel4":
        return arg % 3 + 1
    if fam in ("rastrigin", "xsquared"):
        return arg % 8 + 1
    if fam == "gkls":
        dim, k = arg
        return (dim, k % 100 + 1) if k % 2 else (2 + (dim - 1) % 4, k)     # same or another dimension
    return None


def check_instance(fam, arg, tier, seed):
    keep = construction_history(fam, arg)     # kept alive while the instance under test is built and checked
    succ = successor(fam, arg)
    if succ is not None:
        # ... and a younger sibling is built right after the instance under test and stays alive during the checks
        bench.construct_then(fam, arg, fam, succ)
    try:
        return _check_instance(fam, arg, tier, seed)
    finally:
        bench.POST["spec"] = None
        bench.POST["alive"] = []
        del keep


def _check_instance(fam, arg, tier, seed):
    if fam in ("hill", "shekel"):
        return check_1d(fam, arg, tier, seed)
    if fam == "grishagin":
        return check_grishagin(arg, tier, seed)
    if fam == "gkls":
        return check_gkls(tuple(arg), tier, seed)
    if fam == "shekel4":
        return check_shekel4(arg, tier, seed)
    if fam in ("rastrigin", "xsquared"):
        return check_separable(fam, arg, tier, seed)
    return check_strongin(tier, seed)


def run_instances(ctx):
    ctx.exhaustive = True
    inst = instances()
    # interleave families over the shards; expensive ones (grishagin) first
    inst.sort(key=lambda t: {"grishagin": 0, "shekel4": 1, "gkls": 2}.get(t[0], 3))
    for k, (fam, arg) in enumerate(inst):
        if k % ctx.nshards != ctx.shard:
            continue
        try:
            nt, info = guarded(lambda _c: check_instance(fam, arg, ctx.tier, ctx.seed), None)
        except Violation as v:
            ctx.violation({"family": fam, "arg": arg}, str(v))
            continue
        pt_val = None
        ctx.record({"family": fam, "arg": arg}, bool(nt), ["instance:" + fam],
                   sample={"family": fam, "arg": arg, "info": info})


SUBCHECKS = {"instances": run_instances}


def replay(kind, case):
    arg = case["arg"]
    check_instance(case["family"], tuple(arg) if isinstance(arg, list) else arg, "quick", 1)
