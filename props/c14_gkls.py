"""C14 - GKLS functions have the promised structure and are reproducible."""
import json
import math
import os

import numpy as np
from hypothesis import strategies as st

from vlib import bench
from vlib.runner import fail, hyp_run, Violation, guarded, CODE_HOME

LEVEL = "exploration"
RULE = ("All 400 (dimension 2..5, number 1..100) functions are constructed in both tiers. Per function: (1) "
        "structure from the public minima tables (10 minimisers in the box, pairwise non-overlapping balls, global "
        "minimiser index 1 with value -1 at the class distance from the paraboloid vertex with the class radius, "
        "every other minimum > -1, declared optimum = that minimiser); (2) reproducibility: tables and values at five "
        "fixed points equal golden/gkls_reference.json (recorded from the pinned commit), GKLS(3,1)(0.9,0.5,0.3) "
        "equals the repository test's constant, constructing the function again after other functions gives "
        "bit-identical tables, and an object built for another number, used inside every ball and switched with "
        "function.SetFunctionNumber(k) has the tables and the values (78 probe points over all balls) of a newly "
        "built GKLS(n,k); the prescribed values are also read through ONE coordinate container overwritten in place; half "
        "of the functions are built after their hard-class namesake; (3) Hypothesis-generated points (quick 150, thorough 1500 per function): minimisers, "
        "points inside each ball (radius fraction weighted to 0 and 1), pairs straddling a ball boundary at relative "
        "distance 1e-7..1e-3, points outside every ball - checked against paraboloid / lower bound f_i / exact f_i / "
        "a derived slope bound. Non-trivial: a generated case that evaluates the cubic branch (strictly inside a "
        "ball, not at its centre). Distinct = distinct (function, point descriptor).")
ASSUMPTIONS = [
    "golden values were recorded from the pinned commit (GKLS sources untouched by the fix commits); they show "
    "the generator did not change, not that the port equals the published C generator",
    "continuity across a ball boundary is checked with the slope bound Lambda_i = 20*D_i + 12*a_i/rho_i + 2*rho_i "
    "(cubic side) plus 2*||x-T|| (paraboloid side), see DESIGN.md section 7",
    "tolerances: paraboloid identity 1e-12*(1+|v|), minimiser values exact, golden 1e-9 relative",
]
NONTRIVIAL_FLOOR = {"quick": 3000, "thorough": 30000}
WATCHDOG_S = {"quick": 1800, "thorough": 6 * 3600}
_GOLDEN = {}
CLASS = {2: (0.9, 0.2), 3: (0.66, 0.2), 4: (0.66, 0.2), 5: (0.66, 0.3)}


def golden():
    if not _GOLDEN:
        _GOLDEN.update(json.load(open(os.path.join(CODE_HOME, "golden", "gkls_reference.json")))["functions"])
    return _GOLDEN


def plan(tier):
    golden()
    return [("functions", 16, 150 if tier == "quick" else 1500)]


def tables(g):
    m = g.function.GKLS_minima
    return np.array(m.local_min, dtype=float), np.array(m.f, dtype=float), np.array(m.rho, dtype=float)


def structure(dim, k, g):
    who = "GKLS(%d, %d): " % (dim, k)
    M, f, rho = tables(g)
    if M.shape != (10, dim) or f.shape != (10,) or rho.shape != (10,):
        fail(who + "expected 10 minimisers, got tables of shape %r, %r, %r" % (M.shape, f.shape, rho.shape))
    if np.any(np.abs(M) > 1.0):
        fail(who + "a minimiser lies outside the box [-1,1]^n: %r" % M[np.any(np.abs(M) > 1, axis=1)].tolist())
    for i in range(10):
        for j in range(i + 1, 10):
            d = float(np.linalg.norm(M[i] - M[j]))
            if d < rho[i] + rho[j] - 1e-9:
                fail(who + "attraction balls %d and %d overlap: distance %r < %r + %r" % (i, j, d, rho[i], rho[j]))
    if f[1] != -1.0:
        fail(who + "the global minimum value is %r, not -1" % f[1])
    dist, rad = CLASS[dim]
    if abs(rho[1] - rad) > 1e-12:
        fail(who + "global attraction radius %r differs from the class radius %r" % (rho[1], rad))
    d01 = float(np.linalg.norm(M[1] - M[0]))
    if abs(d01 - dist) > 1e-9:
        fail(who + "global minimiser at distance %r from the paraboloid vertex, class distance is %r" % (d01, dist))
    for i in range(2, 10):
        if not (f[i] > -1.0):
            fail(who + "local minimum %d has value %r, not strictly above the global value -1" % (i, f[i]))
    if np.any(rho <= 0):
        fail(who + "a non-positive attraction radius: %r" % rho.tolist())
    pt, val = bench.declared(g)
    if val != -1.0 or np.any(np.array(pt) != M[1]):
        fail(who + "declared optimum (%r, %r) is not minimiser 1 = %r with value -1" % (pt, val, M[1].tolist()))
    for i in range(1, 10):
        v = bench.real_eval(g, M[i])
        if v != f[i]:
            fail(who + "value at minimiser %d is %r, prescribed %r" % (i, v, f[i]))
    v0 = bench.real_eval(g, M[0])
    if v0 != f[0]:
        fail(who + "value at the paraboloid vertex is %r, prescribed %r" % (v0, f[0]))
    # the same through ONE coordinate container that the caller overwrites in place (array and list)
    from iOpt.trial import FunctionValue, Point
    for buf in (np.zeros(dim, dtype=np.double), [0.0] * dim):
        pt = Point(buf, [])
        for i in list(range(10)) + [1, 0]:
            buf[:] = [float(c) for c in M[i]]
            v = g.Calculate(pt, FunctionValue()).value
            if v != f[i]:
                fail(who + "value at minimiser %d is %r, prescribed %r, when the point is supplied in a re-used %s" %
                     (i, v, f[i], type(buf).__name__))


def hard_class_function(dim, k):
    from iOpt.problems.GKLS_function.gkls_function import GKLSClass, GKLSFuncionType, GKLSFunction
    f = GKLSFunction()
    f.GKLS_global_value = -1.0
    f.NumberOfLocalMinima = 10
    f.SetDimension(dim)
    f.mFunctionType = GKLSFuncionType.TD
    f.SetFunctionClass(GKLSClass.Hard, dim)
    f.GKLS_parameters_check()
    f.SetFunctionNumber(k)
    return f


def reproducibility(dim, k, g):
    who = "GKLS(%d, %d): " % (dim, k)
    ref = golden()["%d,%d" % (dim, k)]
    M, f, rho = tables(g)
    for name, got, want in (("minimisers", M, ref["local_min"]), ("minimum values", f, ref["f"]),
                            ("radii", rho, ref["rho"])):
        want = np.array(want)
        if got.shape != want.shape or np.any(np.abs(got - want) > 1e-9 * (1 + np.abs(want))):
            fail(who + "%s differ from the recorded reference (max deviation %r)" %
                 (name, float(np.max(np.abs(got - want))) if got.shape == want.shape else "shape"))
    for p, want in zip(ref["points"], ref["values"]):
        v = bench.real_eval(g, p)
        if abs(v - want) > 1e-9 * (1 + abs(want)):
            fail(who + "value %r at %r differs from the recorded reference %r" % (v, p, want))
    if (dim, k) == (3, 1):
        v = bench.real_eval(g, [0.9, 0.5, 0.3])
        if v != 0.93113217376043778:
            fail(who + "value at (0.9, 0.5, 0.3) is %r, the repository's own test records 0.93113217376043778" % v)
    # constructing other functions in between must not change (n, k): another member, and the function with the
    # same dimension and number from the generator's other difficulty class (built through the public
    # GKLSFunction interface, the way GKLS.__init__ does it for the simple class)
    keep = [bench.construct("gkls", (2 + (dim + k) % 4, 1 + (7 * k) % 100)),
            bench.construct("gkls", (dim, 1 + k % 100))]
    Mk, fk, rhok = tables(g)
    if not (np.array_equal(M, Mk) and np.array_equal(f, fk) and np.array_equal(rho, rhok)):
        fail(who + "constructing other GKLS functions changed the tables of this, already existing one")
    for i in (1, 2, 5):
        if bench.real_eval(g, M[i]) != f[i]:
            fail(who + "after other GKLS functions were constructed the value at minimiser %d is %r, prescribed %r" %
                 (i, bench.real_eval(g, M[i]), f[i]))
    hard_class_function(dim, k)
    g2 = bench.construct("gkls", (dim, k))
    M2, f2, rho2 = tables(g2)
    if not (np.array_equal(M, M2) and np.array_equal(f, f2) and np.array_equal(rho, rho2)):
        fail(who + "constructing the same function again gives different tables")
    M3, f3, rho3 = tables(g)
    if not (np.array_equal(M, M3) and np.array_equal(f, f3)):
        fail(who + "constructing another instance changed the tables of an existing one")


def regeneration(dim, k, g):
    """Function (n, k) is the same function however the object got there: an object that was built for another
    number, used (evaluated inside every ball, so that whatever it memoises is filled) and then switched with
    function.SetFunctionNumber(k) must have the tables and the values of a newly built GKLS(n, k)."""
    who = "GKLS(%d, %d) reached through SetFunctionNumber on a used GKLS(%d, %d) object: "
    k0 = 1 + (k * 37 + dim) % 100
    if k0 == k:
        k0 = 1 + k % 100
    who = who % (dim, k, dim, k0)
    h = bench.construct("gkls", (dim, k0))
    Mh, fh, rhoh = tables(h)
    dirs = np.eye(dim)
    for i in range(10):
        for t in (0.0, 0.3, 0.9):
            bench.real_eval(h, np.clip(Mh[i] + dirs[i % dim] * rhoh[i] * t, -1, 1))
    h.function.SetFunctionNumber(k)
    M, f, rho = tables(g)
    M2, f2, rho2 = tables(h)
    if not (np.array_equal(M, M2) and np.array_equal(f, f2) and np.array_equal(rho, rho2)):
        fail(who + "its minimiser tables differ from those of a newly built GKLS(%d, %d)" % (dim, k))
    for i in range(10):
        for t in (0.0, 0.25, 0.5, 0.99, 1.01, 1.6):
            for sgn in (1.0, -1.0):
                y = np.clip(M[i] + sgn * dirs[(i + 1) % dim] * rho[i] * t, -1, 1)
                a, b = bench.real_eval(h, y), bench.real_eval(g, y)
                if a != b:
                    fail(who + "value %r at %r, a newly built GKLS(%d, %d) gives %r (ball %d, radius fraction %r)" %
                         (a, y.tolist(), dim, k, b, i, t))
    # ... and again when the object is asked for numbers it has generated before (k0, then k once more)
    h.function.SetFunctionNumber(k0)
    M0, f0, rho0 = tables(h)
    if not (np.array_equal(Mh, M0) and np.array_equal(fh, f0) and np.array_equal(rhoh, rho0)):
        fail("GKLS(%d, %d) asked for a second time on one object (after GKLS(%d, %d)): its minimiser tables differ from "
             "those it had the first time" % (dim, k0, dim, k))
    h.function.SetFunctionNumber(k)
    M3, f3, rho3 = tables(h)
    if not (np.array_equal(M, M3) and np.array_equal(f, f3) and np.array_equal(rho, rho3)):
        fail(who + "asked for the same number a second time (after going back to %d), its minimiser tables differ from "
             "those of a newly built GKLS(%d, %d)" % (k0, dim, k))
    for i in (0, 1, 5):
        y = np.clip(M[i] + dirs[(i + 1) % dim] * rho[i] * 0.5, -1, 1)
        if bench.real_eval(h, y) != bench.real_eval(g, y):
            fail(who + "asked for the same number a second time: value %r at %r, a newly built GKLS(%d, %d) gives %r" %
                 (bench.real_eval(h, y), y.tolist(), dim, k, bench.real_eval(g, y)))


unit = st.floats(0.0, 1.0, allow_nan=False)


@st.composite
def point_cases(draw, dim):
    kind = draw(st.sampled_from(["inside", "inside", "straddle", "straddle", "outside", "minimiser"]))
    case = {"kind": kind}
    if kind != "outside":
        case["ball"] = draw(st.integers(1, 9))
        case["dir"] = [draw(st.floats(-1, 1, allow_nan=False)) for _ in range(dim)]
    if kind == "inside":
        case["frac"] = draw(st.one_of(unit, st.floats(0, 1e-3), st.floats(0, 1e-3).map(lambda e: 1 - e),
                                      st.sampled_from([1e-9, 0.5, 1 - 1e-9])))
    elif kind == "straddle":
        case["rel"] = draw(st.floats(-7, -3).map(lambda e: 10.0 ** e))
        case["split"] = draw(unit)
    elif kind == "outside":
        case["u"] = [draw(unit) for _ in range(dim)]
    return case


def slope_bound(M, f, rho, i):
    D = float(np.linalg.norm(M[0] - M[i]))
    a = D * D + f[0] - f[i]
    return 20.0 * D + 12.0 * abs(a) / rho[i] + 2.0 * rho[i]


def in_box(y):
    return bool(np.all(np.abs(y) <= 1.0))


def ball_of(M, rho, y):
    for i in range(1, 10):
        if np.linalg.norm(M[i] - y) <= rho[i]:
            return i
    return 0


def make_body(dim, k, g):
    M, f, rho = tables(g)
    who = "GKLS(%d, %d): " % (dim, k)

    def body(case):
        kind = case["kind"]
        classes = ["kind=" + kind, "dim=%d" % dim]
        if kind == "outside":
            y = 2.0 * np.array(case["u"]) - 1.0
            b = ball_of(M, rho, y)
            v = bench.real_eval(g, y)
            if b == 0:
                want = float(np.linalg.norm(y - M[0])) ** 2 + f[0]
                if abs(v - want) > 1e-12 * (1 + abs(want)):
                    fail(who + "outside every ball the value at %r is %r, the paraboloid gives %r" % (y.tolist(), v, want))
                return False, classes
            if v < f[b] - 1e-12:
                fail(who + "value %r at %r inside ball %d is below its minimum %r" % (v, y.tolist(), b, f[b]))
            return True, classes + ["cubic-branch"]
        i = case["ball"]
        d = np.array(case["dir"], dtype=float)
        nd = float(np.linalg.norm(d))
        if nd < 1e-6:
            d, nd = np.ones(dim), math.sqrt(dim)
        d = d / nd
        if kind == "minimiser":
            v = bench.real_eval(g, M[i])
            if v != f[i]:
                fail(who + "value at minimiser %d is %r, prescribed %r" % (i, v, f[i]))
            return False, classes
        if kind == "inside":
            y = M[i] + d * rho[i] * case["frac"]
            if not in_box(y):
                return False, classes + ["outside-box"]
            v = bench.real_eval(g, y)
            r = float(np.linalg.norm(y - M[i]))
            if r > rho[i]:
                return False, classes
            if v < f[i] - 1e-12 * (1 + abs(f[i])):
                fail(who + "value %r at %r (distance %r from minimiser %d, radius %r) is below the prescribed "
                     "local minimum %r" % (v, y.tolist(), r, i, rho[i], f[i]))
            # the value on the boundary side must connect to the paraboloid: bounded by the slope bound
            edge = M[i] + d * rho[i]
            par = float(np.linalg.norm(edge - M[0])) ** 2 + f[0]
            lam = slope_bound(M, f, rho, i)
            if abs(v - par) > lam * (rho[i] - r) + 1e-9:
                fail(who + "value %r at distance %r from minimiser %d differs from the paraboloid value %r on the "
                     "ball boundary by more than the slope bound %r allows" % (v, r, i, par, lam))
            return r > 1e-12, classes + (["cubic-branch"] if r > 1e-12 else [])
        # straddle: a just inside, b just outside ball i along direction d
        gap = case["rel"] * rho[i]
        a = M[i] + d * (rho[i] - gap * case["split"])
        b = M[i] + d * (rho[i] + gap * (1 - case["split"]) + 1e-15)
        if not (in_box(a) and in_box(b)):
            return False, classes + ["outside-box"]
        if ball_of(M, rho, b) != 0 or ball_of(M, rho, a) != i:
            return False, classes + ["not-straddling"]
        va, vb = bench.real_eval(g, a), bench.real_eval(g, b)
        lam = slope_bound(M, f, rho, i) + 2.0 * float(np.linalg.norm(b - M[0])) + 1.0
        dist = float(np.linalg.norm(a - b))
        if abs(va - vb) > lam * dist + 1e-9:
            fail(who + "discontinuity at the boundary of ball %d: f(%r)=%r, f(%r)=%r at distance %r "
                 "(slope bound %r)" % (i, a.tolist(), va, b.tolist(), vb, dist, lam))
        return True, classes + ["cubic-branch", "rel<1e-5" if case["rel"] < 1e-5 else "rel>=1e-5"]

    return body


def functions(ctx):
    allf = bench.FAMILIES["gkls"]
    for idx, (dim, k) in enumerate(allf):
        if idx % ctx.nshards != ctx.shard:
            continue
        try:
            if (dim + k) % 2:
                # half of the functions are built after their hard-class namesake, half before (reproducibility)
                guarded(lambda _c: hard_class_function(dim, k), None)
            g = guarded(lambda _c: bench.construct("gkls", (dim, k)), None)
            guarded(lambda _c: structure(dim, k, g), None)
            guarded(lambda _c: reproducibility(dim, k, g), None)
            guarded(lambda _c: regeneration(dim, k, g), None)
        except Violation as v:
            ctx.violation({"dim": dim, "k": k, "point": None}, str(v))
            continue
        ctx.count(3, ["structure+reproducibility+regeneration dim=%d" % dim])
        body = make_body(dim, k, g)
        nviol = len(ctx.violations)
        hyp_run(ctx, point_cases(dim).map(lambda c, dim=dim, k=k: dict(c, dim=dim, k=k)), body, ctx.budget,
                salt=dim * 1000 + k, shrink_calls=200)
        for v in ctx.violations[nviol:]:
            v["case"] = {"dim": dim, "k": k, "point": v["case"]}


SUBCHECKS = {"functions": functions}


def replay(kind, case):
    dim, k = case["dim"], case["k"]
    g = bench.construct("gkls", (dim, k))
    structure(dim, k, g)
    reproducibility(dim, k, g)
    regeneration(dim, k, g)
    if case.get("point"):
        make_body(dim, k, g)(case["point"])
