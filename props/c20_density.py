"""C20 - the configured evolvent density is honoured."""
from hypothesis import strategies as st

from vlib import gen
from vlib.agp import Run
from vlib.runner import fail, hyp_run

LEVEL = "exploration"
RULE_EXTRA = (" eps is drawn above and below the cell size; the density is passed as a Python int or as a numpy "
              "int64/int32 scalar; SolverParameters.startPoint is set in a fifth of the cases (every trial, the first "
              "included, must lie on the grid); a fifth of the boxes are integer-valued and handed over as Python int lists or "
              "integer arrays.")
RULE = ("Hypothesis-generated: evolventDensity m in 2..12, N in 2..5, arbitrary box, any objective family, budgets "
        "of 5..100 trials, Solve or DoGlobalIteration; oracle: every evaluated point y satisfies "
        "(y_i-lower_i)/(upper_i-lower_i)*2^m - 1/2 = integer in [0,2^m) within 1e-6 (a centre of the density-m grid "
        "is never a centre of another density, so a solver that ignores the parameter fails at its first trial for "
        "every m != 10). Non-trivial: m != 10 and at least 5 trials. Distinct = distinct case digest.")
RULE = RULE + RULE_EXTRA
ASSUMPTIONS = ["grid-membership tolerance 1e-6 cell (the affine map's rounding is below 1e-7 cell inside the "
               "generated box bounds for m<=12)"]
NONTRIVIAL_FLOOR = {"quick": 300, "thorough": 3000}


# thorough tier: coverage-guided (atheris) drive of the same generator and oracle: kind -> (shards, cases per shard)
FUZZ = {"generated": (8, 1500)}


def plan(tier):
    return [("generated", 16, (1600 if tier == "quick" else 32000) // 16)]


@st.composite
def cases(draw):
    m = draw(st.integers(2, 12))
    if draw(st.integers(0, 4)) == 0:
        recipe = draw(gen.int_box_recipe(dims=(2, 3, 4, 5), densities=(m,)))     # integer-typed bounds
    else:
        recipe = draw(gen.problem_recipe(dims=(2, 3, 4, 5), densities=(m,)))
    iters = st.one_of(st.sampled_from([5, 20, 50, 100]), st.integers(5, 100))
    # eps above and below the cell size 2^-m of the configured grid (the budget bounds the run either way)
    eps = draw(st.one_of(gen.eps_values(recipe["n"], m, cheap=False).map(lambda e: max(e, 2.0 ** (1 - m))),
                         st.sampled_from([1e-4, 1e-3, 0.01, 0.05])))
    params = {"r": draw(gen.r_values), "eps": eps, "itersLimit": draw(iters)}
    how = draw(st.sampled_from(["ctor", "ctor", "assign", "rebound", "assign+rebound", "zoom", "assign+zoom"]))
    if "assign" in how:
        params["assign"] = True
    if "rebound" in how:
        params["rebound"] = True      # solver.evolvent.SetBounds(the same box): the grid must stay the configured one
    if "zoom" in how:
        # the solver is re-targeted to a sub-box (fractional bounds) through its own evolvent before the first
        # iteration: the grid is that of the configured density on the sub-box
        params["zoom"] = True
    dt = draw(st.sampled_from(["int", "int", "np64", "np32"]))
    if dt != "int":
        recipe = dict(recipe, density_type=dt)      # the density given as a numpy integer scalar
    sp = draw(gen.start_points(recipe))
    if sp is not None:
        params["startPoint"] = sp                   # every trial point, the first included, lies on the grid
    case = {"recipe": recipe, "params": params, "drive": draw(st.sampled_from(["solve", "steps"]))}
    if draw(st.integers(0, 5)) == 0:
        # the objective raises once, at its k-th call (ValueError / ZeroDivisionError as an unguarded formula does);
        # the caller goes on with single iterations: every point the objective is asked for lies on the grid
        case["fault"] = {"at": draw(st.integers(1, 15)), "exc": draw(st.sampled_from(["ValueError", "ZeroDivisionError"]))}
        case["drive"] = "single-steps"
    return case


def body(case):
    recipe = case["recipe"]
    m = recipe["density"]
    run = Run(recipe, case["params"], record=False)
    asked = []
    if case.get("fault"):
        exc = {"ValueError": ValueError, "ZeroDivisionError": ZeroDivisionError}[case["fault"]["exc"]]
        run.problem.fail_at, run.problem.fail_exc = case["fault"]["at"], exc
        real = run.problem.Calculate

        def spy(point, fv):
            asked.append(tuple(float(v) for v in point.floatVariables))
            return real(point, fv)
        run.problem.Calculate = spy
        for _ in range(min(case["params"]["itersLimit"], 40)):
            try:
                run.step(1)
            except exc:
                pass
            except Exception as e:
                if "outside of interval" not in str(e):
                    raise
                break
    elif case["drive"] == "solve":
        run.solve()
    else:
        try:
            run.step(case["params"]["itersLimit"])
        except Exception as e:
            if "outside of interval" not in str(e):
                raise
    lo, hi = recipe["lower"], recipe["upper"]
    if case["params"].get("zoom"):
        lo, hi = ([a + 0.25 * (b - a) for a, b in zip(lo, hi)], [b - 0.125 * (b - a) for a, b in zip(lo, hi)])
    T = float(1 << m)
    points = [(None, y, None) for y in asked] if asked else run.problem.log
    for k, (_, y, _) in enumerate(points):
        for i, (v, a, b) in enumerate(zip(y, lo, hi)):
            c = (v - a) / (b - a) * T - 0.5
            j = round(c)
            if abs(c - j) > 1e-6 or j < 0 or j >= T:
                fail("evolventDensity=%d: coordinate %d of trial %d, %r, is not lower+(j+1/2)*(upper-lower)/2^%d "
                     "(grid position %r) on box [%r, %r]" % (m, i, k + 1, v, m, c + 0.5, a, b))
    n = len(run.problem.log)
    return (m != 10 and n >= 5), ["m=%d" % m, "N=%d" % recipe["n"], "drive=" + case["drive"],
                                  "density-as=" + recipe.get("density_type", "int"),
                                  "startPoint" if case["params"].get("startPoint") else "no-startPoint",
                                  "re-targeted-to-sub-box" if case["params"].get("zoom") else "box-as-constructed",
                                  "int-typed-bounds" if (recipe.get("style") or {}).get("bounds") else "float-bounds"]


def generated(ctx):
    hyp_run(ctx, cases(), body, ctx.budget)


SUBCHECKS = {"generated": generated}


def replay(kind, case):
    body(case)
