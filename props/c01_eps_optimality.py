"""C01 - certified eps-optimality of the result under the Lipschitz reliability condition."""
import math

from hypothesis import strategies as st

from vlib import gen
from vlib import objectives as ob
from vlib.agp import Run, replay_history, best_of, swallowed_exception_is_float_resolution
from vlib.runner import fail, hyp_run, HarnessError

LEVEL = "exploration"
RULE = ("Hypothesis-generated Lipschitz objectives with closed-form global minimum and Lipschitz bound (cones, "
        "absolute-value sums, linear, bowls with vertex in/outside the box, separable sines, 1-D piecewise "
        "linear), N=1..5, arbitrary boxes, r in [1.01,16], eps in (0,1), density 8..12, itersLimit 5000, a fifth of the cases first "
        "run with a budget of 3..40 trials, after which the budget is raised and Solve is called again (half of those on a box all of whose sides are "
        "shorter than 1); a fifth request their first 10..100 trials in batches DoGlobalIteration(k) before Solve; one "
        "case in twelve is a steep 1-D zigzag whose first 12..60 trials are one batch; a quarter with refineSolution=True; about "
        "1 % very long runs (a flat 1-D objective with one well narrower than 2^-13, eps a quarter of its half-width: "
        "about 32,000 trials); two "
        "classes: 'unconditional' (objective scaled so K_N*L <= r) and 'conditional' (arbitrary L, precondition "
        "r*M >= K_N*L evaluated from the observed history). Non-trivial: accuracy stop reached, precondition "
        "true and >=10 trials. Distinct = distinct case digest.")
ASSUMPTIONS = [
    "f* and L come from closed forms of the generated families; L is an upper bound of the true constant",
    "precondition evaluated with M just before the decision that reached the accuracy (the last one in a plain Solve; "
    "an earlier one when batches went on past it), conclusion with the final M (M_dec <= M_fin): "
    "the check asserts the stated bound on a subset of the stated hypothesis",
    "comparison tolerance 1e-12*(1+|f*|+|best|)",
    "eps >= the per-dimension cost floor (1e-5 or, in a third of the 1-D cases, 1e-6; 3e-3, 0.03, 0.05, 0.1 for N=2..5); runs that hit itersLimit or "
    "end by float-resolution exhaustion are counted as inconclusive",
]
NONTRIVIAL_FLOOR = {"quick": 300, "thorough": 3000}


def K(n):
    return 2.0 if n == 1 else 2.0 ** (3.0 - 1.0 / n) * math.sqrt(n + 3.0)


def plan(tier):
    total = 2000 if tier == "quick" else 60000
    return [("generated", 16, total // 16)]


@st.composite
def cases(draw):
    recipe = draw(gen.problem_recipe(exact_only=True, densities=(10, 10, 8, 12), offsets=True, styles=True))
    n = recipe["n"]
    if n == 1 and draw(st.integers(0, 1)) == 0:
        # "every box lower<upper": a thin 1-D box (width 1e-3..1e-8, at most 1e3 widths away from the origin, so
        # that the affine map keeps 12 significant digits inside the box)
        w = float(10.0 ** -draw(st.integers(3, 8))) * draw(st.floats(1.0, 9.0))
        c = draw(st.floats(-1e3, 1e3)) * w
        recipe = dict(recipe, lower=[c - w / 2], upper=[c + w / 2])
    r = draw(gen.r_values)
    # N=1: a third of the cases go down to eps=1e-6 (the float-resolution floor); otherwise the per-dimension cost floor
    cheap = n > 1 or draw(st.integers(0, 2)) > 0
    eps = draw(gen.eps_values(n, recipe["density"], cheap=cheap, upto=0.5))
    if eps >= 1.0:
        eps = 0.5
    cls = draw(st.sampled_from(["unconditional", "conditional"]))
    if cls == "unconditional":
        L = ob.lipschitz(recipe["obj"])
        if L > 1e-100:     # (a flatter objective satisfies K_N*L <= r as it is; scaling it up would overflow)
            u = draw(st.sampled_from([0.999, 0.999, 0.5, 0.1]))
            recipe = dict(recipe, obj=ob.scaled(recipe["obj"], u * r / (K(n) * L)))
    case = {"recipe": recipe, "params": {"r": r, "eps": eps, "itersLimit": 5000}, "class": cls}
    if draw(st.integers(0, 59)) == 37:
        # a very long run: a flat 1-D objective with one narrow well (half-width w, depth h = 2w, so K_1*L = 4 <= r),
        # eps = w/10: the search refines [0,1] uniformly for tens of thousands of trials (8,000-70,000) before the well,
        # which is narrower than the intervals of the first few thousand trials, decides
        w = float(2.0 ** -13) * draw(st.floats(0.3, 0.5))
        # (the centre of the well by the cell of the 2^-13 grid it lies in and its half of the cell: the search refines
        # dyadically, so whether the well sits in a left or a right half is what matters)
        c = (draw(st.integers(410, 7782)) + draw(st.sampled_from([0.25, 0.75, 0.5])) +
             draw(st.floats(-0.2, 0.2))) / 8192.0
        case = {"recipe": {"n": 1, "lower": [0.0], "upper": [1.0], "density": 10,
                           "obj": {"family": "needle", "c": [c], "w": w, "h": 2.0 * w}},
                "params": {"r": draw(st.sampled_from([4.0, 4.5, 6.0])), "eps": w / 4.0, "itersLimit": 100000},
                "class": "unconditional", "very_long": True}
        return case
    if draw(st.integers(0, 11)) == 5:
        # a steep multi-extremal 1-D zigzag (equidistant nodes, several wells of different depth) whose first trials
        # are requested as ONE large batch; M grows many times inside the batch
        k = draw(st.integers(7, 12))
        obj = {"family": "pwl1", "t": [i / k for i in range(k + 1)],
               "v": [draw(st.floats(-3, 3, allow_nan=False)) for _ in range(k + 1)]}
        return {"recipe": {"n": 1, "lower": [0.0], "upper": [1.0], "density": 10, "obj": obj},
                "params": {"r": draw(st.sampled_from([2.5, 3.0, 4.0])),
                           "eps": draw(st.sampled_from([0.002, 0.005, 0.01, 0.02, 0.03])), "itersLimit": 5000},
                "class": "conditional", "batches": [draw(st.integers(12, 60))], "zigzag": True}
    # refineSolution=True: the value Solve returns is the refined one; it may only be lower (C05), the bound stays
    case["refine"] = draw(st.integers(0, 3)) == 0
    if "first_limit" not in case and draw(st.integers(0, 4)) == 0:
        # the first iterations are requested in batches (DoGlobalIteration(k), k > 1), Solve finishes the search
        case["batches"] = draw(gen.compositions(draw(st.sampled_from([10, 40, 50, 100])), max_parts=4))
    if draw(st.integers(0, 9)) == 0:
        # the objective fails once (an interrupt from the keyboard, a numerical error) at one of the first evaluations;
        # whatever the first Solve does with it, the user calls Solve again and that one ends with the accuracy stop
        case["fault"] = {"at": draw(st.integers(2, 40)),
                         "exc": draw(st.sampled_from(["KeyboardInterrupt", "ObjectiveFailure", "ValueError"]))}
    if draw(st.integers(0, 4)) == 0:
        # the search is first run with a small budget, then the budget is raised and Solve is called again: the
        # statement is about the Solve that ends with the accuracy stop, however the trials before it were spent
        case["first_limit"] = draw(st.sampled_from([3, 5, 10, 20, 40]))
        if draw(st.booleans()):
            # ... on a box all of whose sides are shorter than 1 (the accuracy is a length on the unit cube of the
            # curve, not in the units of the box)
            f = draw(st.sampled_from([0.5, 0.1, 0.01, 1e-3]))
            rec = case["recipe"]
            wmax = max(b - a for a, b in zip(rec["lower"], rec["upper"]))
            f = f / wmax if wmax >= 1.0 else 1.0     # the longest side becomes f (a box that is small already stays)
            mid = [(a + b) / 2 for a, b in zip(rec["lower"], rec["upper"])]
            half = [(b - a) / 2 * f for a, b in zip(rec["lower"], rec["upper"])]
            case["recipe"] = dict(rec, lower=[c - h for c, h in zip(mid, half)], upper=[c + h for c, h in zip(mid, half)])
    return case


def body(case):
    recipe, p = case["recipe"], case["params"]
    n, r, eps = recipe["n"], p["r"], p["eps"]
    refine = bool(case.get("refine"))
    if case.get("first_limit"):
        run = Run(recipe, dict(p, itersLimit=case["first_limit"]), refine=refine)
        run.solve()
        run.sp.itersLimit = p["itersLimit"]
    else:
        run = Run(recipe, p, refine=refine)
        try:
            for k in case.get("batches", []):
                run.step(k)
        except Exception as e:
            if "outside of interval" not in str(e):
                raise
            return False, ["N=%d" % n, "inconclusive:float-resolution"]
    if case.get("fault"):
        from vlib.objectives import ObjectiveFailure
        exc = {"KeyboardInterrupt": KeyboardInterrupt, "ObjectiveFailure": ObjectiveFailure,
               "ValueError": ValueError}[case["fault"]["exc"]]
        run.problem.fail_at = max(case["fault"]["at"], len(run.problem.log) + 1)
        run.problem.fail_exc = exc
        try:
            run.solve()
        except exc:
            pass            # (whether a failure may leave Solve is C16's subject)
        run.problem.fail_at = None
        import io
        run.out = io.StringIO()     # (the notice about the contained failure; the deciding Solve starts with a clean page)
    sol = run.solve()
    hist = run.history()
    classes = ["N=%d" % n, "class=" + case["class"], "family=" + recipe["obj"]["family"],
               "thin-box" if (n == 1 and recipe["upper"][0] - recipe["lower"][0] < 1e-3) else "ordinary-box",
               "budget-raised-then-solved-again" if case.get("first_limit") else
               ("batches-then-solve" if case.get("batches") else "single-solve")]
    if "Exception was thrown" in run.stdout():
        if not swallowed_exception_is_float_resolution(run):
            fail("Solve swallowed an internal exception after %d trials" % len(hist))
        classes.append("inconclusive:float-resolution")
        return False, classes
    if refine:
        classes.append("refineSolution")
    if case.get("very_long"):
        classes.append("very-long-run")
    if case.get("zigzag"):
        classes.append("zigzag-one-large-batch")
    if case.get("fault"):
        classes.append("transient-objective-failure-then-solved-again")
    if len(hist) >= p["itersLimit"]:
        classes.append("inconclusive:budget")
        return False, classes
    model, info = replay_history(n, r, hist, check_rule=False)
    L = ob.lipschitz(recipe["obj"])
    fstar = ob.exact_min(recipe["obj"])
    # the decision that reached the accuracy: the first trial that subdivided an interval shorter than eps.  In a plain
    # Solve that is the last trial; when the first trials are requested in batches (DoGlobalIteration does not consult
    # the stop rule) iterations may go on after it, M may grow afterwards, and the Solve that follows stops at once -
    # the certificate is the one of the moment the accuracy was reached, with the M of that moment
    from vlib.agp import hoelder_eps_cmp
    dec = next((rec for rec in info[1:] if rec["D"] is not None and hoelder_eps_cmp(rec["D"], eps) <= 0), info[-1])
    m_dec = dec["M_before"]
    if dec is not info[-1]:
        classes.append("accuracy-reached-before-the-last-trial")
    m_fin = model.M
    pre = r * m_dec >= K(n) * L
    if case["class"] == "unconditional" and not pre:
        raise HarnessError("unconditional class built with K_N*L=%r > r=%r" % (K(n) * L, r))
    classes.append("precondition=%s" % pre)
    if not pre:
        return False, classes
    best = best_of(sol)[1]
    m = run.density()
    grid = 0.0 if n == 1 else L * 2.0 ** -m * (math.sqrt(n + 3.0) + math.sqrt(n) / 2.0)
    bound = (r * m_fin / 2.0) * eps + grid
    gap = best - fstar
    tol = 1e-12 * (1.0 + abs(fstar) + abs(best))
    if gap < -tol - 1e-9 * (1 + abs(fstar)):
        raise HarnessError("returned value %r is below the closed-form minimum %r: %r" % (best, fstar, case))
    if not (gap < bound + tol):
        fail("accuracy stop after %d trials with r*M=%r >= K_N*L=%r, but best - f* = %r is not below the "
             "bound (r*M/2)*eps + grid = %r (eps=%r, N=%d, m=%d, L=%r)" %
             (len(hist), r * m_dec, K(n) * L, gap, bound, eps, n, m, L))
    ratio = gap / bound if bound > 0 else 0.0
    classes.append("slack<0.1" if ratio < 0.1 else ("slack<0.5" if ratio < 0.5 else "slack>=0.5"))
    nontrivial = len(hist) >= 10
    classes.append("trials>=10" if nontrivial else "trials<10")
    return nontrivial, classes, {"case": case, "trials": len(hist), "gap": gap, "bound": bound}


def generated(ctx):
    hyp_run(ctx, cases(), body, ctx.budget, cpu_s=240)     # the very long runs take 5-30 s of CPU


SUBCHECKS = {"generated": generated}


def replay(kind, case):
    body(case)
