"""C19 - search-data containers act as an ordered set plus max-priority queues."""
import bisect
import itertools
import math
from collections import Counter

from hypothesis import strategies as st
from hypothesis.stateful import RuleBasedStateMachine, rule, precondition, initialize

from vlib.runner import fail, machine_run, MachineMixin, Violation, guarded
from vlib.steps import bounded_call, StepLimit

LINE_LIMIT = 200000     # one container operation on <= 40 items executes a few hundred lines


def call(what, fn, *args):
    try:
        return bounded_call(LINE_LIMIT, fn, *args)
    except StepLimit:
        fail("%s did not return within %d executed lines (it does not terminate)" % (what, LINE_LIMIT))

LEVEL = "exploration"
RULE = ("Model-based. (a) Hypothesis RuleBasedStateMachines for SearchData, SearchDataDualQueue and "
        "CharacteristicsQueue with maxlen in {None,1,2,3,5,10}: rules insert (with or without the true right-neighbour "
        "hint, coordinate distinct and strictly inside), find(x) incl. stored coordinates, get_best (global; local "
        "for the dual variant), set_characteristic(item, value) (makes queued entries stale), clear_queue, "
        "refill_queue, traversal; priorities from a small set (ties), floats and -inf. Oracle: sorted-list model for "
        "order / links / count / last item / find, multiset-of-entries model with eviction for the queues (dual: "
        "maximal among entries whose priority equals the item's current characteristic, refill when none is left). "
        "(b) exhaustive: ALL operation sequences up to length 5 (quick) / 6 (thorough) over a 9-operation alphabet "
        "(insert with priority 0/1/2, get_best, set_characteristic 0/1/2 on the newest item, clear, refill) for "
        "SearchData and SearchDataDualQueue with maxlen None and 2. Non-trivial: a get_best issued when the queue "
        "holds a stale entry, or on an empty queue (refill path), or on a full bounded queue.")
ASSUMPTIONS = [
    "preconditions of every caller in method.py are respected: coordinates distinct and strictly inside (0,1), a "
    "hint is the true right neighbour, no NaN priorities (the dual queue's != staleness test cannot terminate on NaN)",
    "non-termination of a container operation is decided by a bound of 200000 executed Python lines per call "
    "(deterministic; operations on <= 40 items need a few hundred)",
    "ties are free: among entries of equal maximal priority any item may be returned; where a tie makes the "
    "model's knowledge of the queue contents ambiguous (eviction or stale entries at the same priority) the model "
    "turns lenient until the next clear/refill instead of guessing",
]
EXHAUSTIVE_SCOPE = {"quick": "all sequences of length <= 5 over 9 operations x {SearchData, SearchDataDualQueue} x "
                             "maxlen {None, 2}", "thorough": "same with length <= 6"}
NONTRIVIAL_FLOOR = {"quick": 300, "thorough": 3000}


# thorough tier: coverage-guided (atheris) drive of the same generator and oracle: kind -> (shards, cases per shard)
FUZZ = {"sd_machine": (6, 4000), "dual_machine": (6, 4000), "queue_machine": (4, 4000)}


def plan(tier):
    n = 800 if tier == "quick" else 16000
    return [("sd_machine", 6, n // 6), ("dual_machine", 6, n // 6), ("queue_machine", 4, n // 4),
            ("enumerated", 16, 5 if tier == "quick" else 6)]


# ---------------------------------------------------------------------------------------- models

class QueueModel:
    """Multiset of (priority, item key) entries with DEPQ-style eviction of a lowest entry when full."""

    def __init__(self, maxlen):
        self.maxlen = maxlen
        self.levels = {}          # priority -> [count, Counter(keys)]
        self.fuzzy = False        # contents ambiguous (tie at an eviction / stale pop): lenient checks only

    def clear(self):
        self.levels = {}
        self.fuzzy = False

    def total(self):
        return sum(c for c, _ in self.levels.values())

    def insert(self, prio, key):
        lv = self.levels.setdefault(prio, [0, Counter()])
        lv[0] += 1
        lv[1][key] += 1
        if self.maxlen is not None and self.total() > self.maxlen:
            lo = min(self.levels)
            lv = self.levels[lo]
            lv[0] -= 1
            if lv[0] == 0:
                del self.levels[lo]
            elif len(lv[1]) > 1:
                self.fuzzy = True          # which of the equal-priority entries was dropped is not observable
            else:
                k = next(iter(lv[1]))
                lv[1][k] -= 1

    def max_prio(self):
        return max(self.levels)

    def pop(self, prio, key):
        lv = self.levels[prio]
        lv[0] -= 1
        lv[1][key] -= 1
        if lv[1][key] <= 0:
            del lv[1][key]
        if lv[0] <= 0 or not lv[1]:
            del self.levels[prio]

    def drop_level(self, prio):
        del self.levels[prio]


class Harness:
    """Applies one operation to the real container and to the models and compares."""

    @staticmethod
    def check_empty(variant, maxlen):
        """Before anything is inserted the container is empty: its traversal yields nothing and its count is 0."""
        from iOpt.method.search_data import SearchData, SearchDataDualQueue
        sd = (SearchData if variant == "sd" else SearchDataDualQueue)(None, maxlen)
        try:
            seq = list(sd)
        except StopIteration:
            fail("traversing an empty %s raises StopIteration instead of yielding nothing" % type(sd).__name__)
        if seq or sd.GetCount() != 0:
            fail("an empty %s yields %d items / GetCount()=%r" % (type(sd).__name__, len(seq), sd.GetCount()))

    def __init__(self, variant, maxlen):
        from iOpt.method.search_data import SearchData, SearchDataDualQueue, SearchDataItem
        from iOpt.trial import Point
        from iOpt.problems.xsquared import XSquared
        self.variant, self.maxlen = variant, maxlen
        self.Item, self.Point = SearchDataItem, Point
        cls = SearchData if variant == "sd" else SearchDataDualQueue
        self.sd = cls(XSquared(1), maxlen)
        self.items = []           # insertion order
        self.xs = []              # sorted coordinates
        self.by_x = {}
        self.q = {"g": QueueModel(maxlen)}
        if variant == "dual":
            self.q["l"] = QueueModel(maxlen)
        self.nontrivial = False
        self.cls = set()
        self.strict = 0
        self.lenient = 0

    def char(self, it, which):
        return it.globalR if which == "g" else it.localR

    def new_item(self, x, g, l):
        it = self.Item(self.Point([x], []), x)
        it.globalR, it.localR = g, l
        return it

    def key(self, it):
        return self.items.index(it)

    def first(self, g0, l0, g1, l1):
        a, b = self.new_item(0.0, g0, l0), self.new_item(1.0, g1, l1)
        self.sd.InsertFirstDataItem(a, b)
        self.items += [a, b]
        self.xs = [0.0, 1.0]
        self.by_x = {0.0: a, 1.0: b}
        self.check_order("InsertFirstDataItem: ")

    def insert(self, x, g, l, hint):
        i = bisect.bisect_left(self.xs, x)
        if i == 0 or i >= len(self.xs) or self.xs[i] == x:
            return False
        it = self.new_item(x, g, l)
        right = self.by_x[self.xs[i]]
        call("InsertDataItem", self.sd.InsertDataItem, it, right if hint else None)
        self.items.append(it)
        self.xs.insert(i, x)
        self.by_x[x] = it
        for w, qm in self.q.items():
            qm.insert(self.char(it, w), len(self.items) - 1)
            if hint:
                qm.insert(self.char(right, w), self.key(right))
        self.check_order("InsertDataItem(x=%r, %s hint): " % (x, "with" if hint else "without"))
        return True

    def check_order(self, who):
        seq = []
        for it in self.sd:
            seq.append(it)
            if len(seq) > len(self.items) + 3:
                fail(who + "traversal does not terminate")
        if [it.GetX() for it in seq] != self.xs:
            fail(who + "traversal yields coordinates %r, expected %r" % ([it.GetX() for it in seq], self.xs))
        for j, it in enumerate(seq):
            if it is not self.by_x[self.xs[j]]:
                fail(who + "traversal yields a different object at x=%r" % self.xs[j])
            left = seq[j - 1] if j else None
            right = seq[j + 1] if j + 1 < len(seq) else None
            if it.GetLeft() is not left or it.GetRight() is not right:
                fail(who + "neighbour links of the item at x=%r are inconsistent" % self.xs[j])
        if self.sd.GetCount() != len(self.items):
            fail(who + "GetCount()=%r, %d items were inserted" % (self.sd.GetCount(), len(self.items)))
        if self.sd.GetLastItem() is not self.items[-1]:
            fail(who + "GetLastItem() is not the most recently inserted item")

    def traverse_interleaved(self, x):
        """A traversal during which the covering interval of x is looked up at every item and a second, nested
        traversal is run: each traversal still yields every item once, in order."""
        outer = []
        for it in self.sd:
            outer.append(it.GetX())
            self.sd.FindDataItemByOneDimensionalPoint(x)
            inner = [jt.GetX() for jt in self.sd]
            if inner != self.xs:
                fail("a traversal nested in another traversal yields coordinates %r, expected %r" % (inner, self.xs))
            if len(outer) > len(self.xs) + 3:
                fail("a traversal with look-ups in between does not terminate")
        if outer != self.xs:
            fail("a traversal during which FindDataItemByOneDimensionalPoint(%r) and a nested traversal were run "
                 "yields coordinates %r, expected %r" % (x, outer, self.xs))
        self.cls.add("interleaved-traversal")

    def find(self, x):
        got = call("FindDataItemByOneDimensionalPoint", self.sd.FindDataItemByOneDimensionalPoint, x)
        i = bisect.bisect_right(self.xs, x)
        want = self.by_x[self.xs[i]] if i < len(self.xs) else None
        if got is not want:
            fail("FindDataItemByOneDimensionalPoint(%r) returned the item at x=%r, expected the first item to the "
                 "right, x=%r" % (x, got.GetX() if got is not None else None, want.GetX() if want is not None else None))

    def set_char(self, idx, which, value):
        it = self.items[idx % len(self.items)]
        if which == "g":
            it.globalR = value
        else:
            it.localR = value

    def near(self, idx, which, rel):
        """A value a tiny relative step away from the current characteristic of a stored item (finite ones)."""
        v = self.char(self.items[idx % len(self.items)], which if which in self.q else "g")
        if not math.isfinite(v):
            return 1.0 + rel
        return v * (1.0 + rel) if v != 0.0 else rel * 1e-3

    def nudge(self, idx, which, rel):
        self.set_char(idx, which, self.near(idx, which, rel))
        self.cls.add("nudged-characteristic")

    def insert_near(self, x, idx, rel, hint):
        self.insert(x, self.near(idx, "g", rel), self.near(idx, "l", rel), hint)

    def clear(self):
        self.sd.ClearQueue()
        for qm in self.q.values():
            qm.clear()

    def model_refill(self):
        for w, qm in self.q.items():
            qm.clear()
            for x in self.xs:
                it = self.by_x[x]
                qm.insert(self.char(it, w), self.key(it))

    def refill(self):
        call("RefillQueue", self.sd.RefillQueue)
        self.model_refill()

    def has_stale(self, which):
        qm = self.q[which]
        return any(self.char(self.items[k], which) != p for p, (c, ks) in qm.levels.items() for k in ks)

    def get_best(self, which):
        qm = self.q[which]
        full = self.maxlen is not None and qm.total() >= self.maxlen
        if qm.total() == 0 or self.has_stale(which) or full:
            self.nontrivial = True
            self.cls.add("get_best:" + ("empty" if qm.total() == 0 else ("stale" if self.has_stale(which) else "full")))
        if which == "g":
            it = call("GetDataItemWithMaxGlobalR", self.sd.GetDataItemWithMaxGlobalR)
        else:
            it = call("GetDataItemWithMaxLocalR", self.sd.GetDataItemWithMaxLocalR)
        who = "GetDataItemWithMax%sR: " % ("Global" if which == "g" else "Local")
        if it is None or not any(it is o for o in self.items):
            fail(who + "returned %r, not a stored item" % (it,))
        key = self.key(it)
        if qm.fuzzy:
            # queue contents are ambiguous since an earlier tie: only the weak check above is sound
            self.cls.add("lenient-after-tie")
            self.lenient += 1
            if self.variant == "dual":
                # the request may have drained the real queue and refilled BOTH queues; the model cannot tell,
                # so the other queue's contents are ambiguous from here on as well (until the next clear/refill)
                for other in self.q.values():
                    other.fuzzy = True
            return it
        self.strict += 1
        if self.variant == "sd":
            if qm.total() == 0:
                self.model_refill()
                qm = self.q[which]
                if qm.fuzzy:
                    return it
            mp = qm.max_prio()
            lv = qm.levels[mp]
            if key not in lv[1]:
                fail(who + "returned the item at x=%r (queued priorities of it: %r) while the maximal queued "
                     "priority is %r held by items at x=%r" %
                     (it.GetX(), [p for p, (c, ks) in qm.levels.items() if key in ks], mp,
                      [self.items[k].GetX() for k in lv[1]]))
            qm.pop(mp, key)
            return it
        # dual variant: stale entries are skipped, both queues are refilled when the requested one runs empty
        cur = self.char(it, which)
        guard = 0
        while True:
            guard += 1
            if guard > 10000:
                raise RuntimeError("harness: model loop")
            if qm.total() == 0:
                self.model_refill()
                qm = self.q[which]
                if qm.fuzzy:
                    return it
            mp = qm.max_prio()
            lv = qm.levels[mp]
            current = [k for k in lv[1] if self.char(self.items[k], which) == mp]
            if key in current:
                if any(k not in current for k in lv[1]):
                    qm.fuzzy = True      # stale entries of the same priority may or may not have been popped
                qm.pop(mp, key)
                return it
            if current:
                fail(who + "returned the item at x=%r (current characteristic %r) although the item at x=%r has a "
                     "queued, still current characteristic %r that is maximal among the current entries" %
                     (it.GetX(), cur, self.items[current[0]].GetX(), mp))
            qm.drop_level(mp)            # only stale entries at this level: all popped and discarded
            # popping entries of the OTHER queue does not happen; but a refill triggered here resets both


# ---------------------------------------------------------------------------------------- strategies

prios = st.one_of(st.sampled_from([0.0, 1.0, 2.0, -1.0, -math.inf]), st.floats(-1e3, 1e3, allow_nan=False),
                  st.integers(-3, 3).map(float))
coords = st.one_of(st.integers(1, 63).map(lambda k: k / 64.0), st.floats(0.0, 1.0, allow_nan=False,
                                                                          exclude_min=True, exclude_max=True))
maxlens = st.sampled_from([None, None, 1, 2, 3, 5, 10])
tiny = st.sampled_from([1e-6, -1e-6, 2e-6, -2e-6, 5e-7, -5e-7, 1e-9, -1e-9, 3e-16, -3e-16, 1e-4, -1e-4])


class _ContainerMachine(MachineMixin, RuleBasedStateMachine):
    VARIANT = "sd"

    def __init__(self):
        super().__init__()
        self.enter()
        self.h = None

    @initialize(maxlen=maxlens, g0=prios, g1=prios)
    def start(self, maxlen, g0, g1):
        self.trace.append(["start", maxlen, g0, g1])
        self.step(self._start, maxlen, g0, g1)

    def _start(self, maxlen, g0, g1):
        Harness.check_empty(self.VARIANT, maxlen)
        self.h = Harness(self.VARIANT, maxlen)
        self.h.first(g0, g0, g1, g1)
        self.cls.add("maxlen=%s" % maxlen)

    @precondition(lambda self: self.h is not None)
    @rule(x=coords, g=prios, l=prios, hint=st.booleans())
    def insert(self, x, g, l, hint):
        self.trace.append(["insert", x, g, l, hint])
        self.step(self.h.insert, x, g, l, hint)

    @precondition(lambda self: self.h is not None)
    @rule(x=st.one_of(coords, st.sampled_from([0.0, 1.0, -0.5, 1.5])), pick=st.integers(0, 1000), stored=st.booleans())
    def find(self, x, pick, stored):
        if stored:
            x = self.h.xs[pick % len(self.h.xs)]
        self.trace.append(["find", x])
        self.step(self.h.find, x)

    @precondition(lambda self: self.h is not None)
    @rule(x=st.one_of(coords, st.sampled_from([0.0, 1.0])))
    def traverse_interleaved(self, x):
        self.trace.append(["traverse_interleaved", x])
        self.step(self.h.traverse_interleaved, x)

    @precondition(lambda self: self.h is not None)
    @rule(idx=st.integers(0, 1000), which=st.sampled_from(["g", "l"]), v=prios)
    def set_char(self, idx, which, v):
        self.trace.append(["set_char", idx, which, v])
        self.step(self.h.set_char, idx, which, v)

    @precondition(lambda self: self.h is not None)
    @rule(idx=st.integers(0, 1000), which=st.sampled_from(["g", "l"]), rel=tiny)
    def nudge(self, idx, which, rel):
        # a characteristic that changes by a few ulp or by 1e-6 relative is still a different characteristic
        self.trace.append(["nudge", idx, which, rel])
        self.step(self.h.nudge, idx, which, rel)

    @precondition(lambda self: self.h is not None)
    @rule(x=coords, idx=st.integers(0, 1000), rel=tiny, hint=st.booleans())
    def insert_near(self, x, idx, rel, hint):
        self.trace.append(["insert_near", x, idx, rel, hint])
        self.step(self.h.insert_near, x, idx, rel, hint)

    @precondition(lambda self: self.h is not None)
    @rule(which=st.sampled_from(["g", "g", "l"]))
    def get_best(self, which):
        if which not in self.h.q:
            which = "g"
        self.trace.append(["get_best", which])
        self.step(self.h.get_best, which)

    @precondition(lambda self: self.h is not None)
    @rule()
    def clear(self):
        self.trace.append(["clear"])
        self.step(self.h.clear)

    @precondition(lambda self: self.h is not None)
    @rule()
    def refill(self):
        self.trace.append(["refill"])
        self.step(self.h.refill)

    def teardown(self):
        if self.h is not None:
            self.nontrivial = self.h.nontrivial
            self.cls |= self.h.cls
            if self.h.strict:
                self.cls.add("has-strict-get_best")
        self.finish()


class SdMachine(_ContainerMachine):
    VARIANT = "sd"


class DualMachine(_ContainerMachine):
    VARIANT = "dual"


class QueueMachine(MachineMixin, RuleBasedStateMachine):
    """CharacteristicsQueue on its own: Insert / GetBestItem / Clear / IsEmpty / GetLen / GetMaxLen."""

    def __init__(self):
        super().__init__()
        self.enter()
        self.q = None

    @initialize(maxlen=maxlens)
    def start(self, maxlen):
        self.trace.append(["start", maxlen])
        self.step(self._start, maxlen)

    def _start(self, maxlen):
        from iOpt.method.search_data import CharacteristicsQueue
        self.q = CharacteristicsQueue(maxlen)
        self.m = QueueModel(maxlen)
        self.maxlen = maxlen
        self.objs = []
        if self.q.GetMaxLen() != maxlen:
            fail("GetMaxLen()=%r for a queue created with maxlen=%r" % (self.q.GetMaxLen(), maxlen))

    @precondition(lambda self: self.q is not None)
    @rule(p=prios)
    def insert(self, p):
        self.trace.append(["insert", p])
        self.step(self._insert, p)

    def _insert(self, p):
        from iOpt.method.search_data import SearchDataItem
        from iOpt.trial import Point
        it = SearchDataItem(Point([0.0], []), len(self.objs) / 1024.0)
        self.objs.append(it)
        if self.maxlen is not None and self.m.total() >= self.maxlen:
            self.nontrivial = True
            self.cls.add("insert-into-full")
        self.q.Insert(p, it)
        self.m.insert(p, len(self.objs) - 1)
        self.sizes()

    def sizes(self):
        if self.q.GetLen() != self.m.total():
            fail("GetLen()=%r, the model holds %d entries (maxlen=%r)" % (self.q.GetLen(), self.m.total(), self.maxlen))
        if self.q.IsEmpty() != (self.m.total() == 0):
            fail("IsEmpty()=%r with %d entries" % (self.q.IsEmpty(), self.m.total()))

    @precondition(lambda self: self.q is not None and self.m.total() > 0)
    @rule()
    def get_best(self):
        self.trace.append(["get_best"])
        self.step(self._get_best)

    def _get_best(self):
        if self.m.total() == 0:
            return
        it, p = self.q.GetBestItem()
        mp = self.m.max_prio()
        if p != mp:
            fail("GetBestItem returned priority %r, the maximal queued priority is %r" % (p, mp))
        key = [k for k, o in enumerate(self.objs) if o is it]
        if not key or (key[0] not in self.m.levels[mp][1] and not self.m.fuzzy):
            fail("GetBestItem returned an item that was not queued with the maximal priority %r" % mp)
        if key[0] in self.m.levels[mp][1]:
            self.m.pop(mp, key[0])
        else:
            lv = self.m.levels[mp]
            lv[0] -= 1
            if lv[0] <= 0:
                del self.m.levels[mp]
        self.sizes()

    @precondition(lambda self: self.q is not None)
    @rule()
    def clear(self):
        self.trace.append(["clear"])
        self.step(self._clear)

    def _clear(self):
        self.q.Clear()
        self.m.clear()
        self.sizes()

    def teardown(self):
        self.finish()


def sd_machine(ctx):
    machine_run(ctx, SdMachine, ctx.budget, steps=30)


def dual_machine(ctx):
    machine_run(ctx, DualMachine, ctx.budget, steps=30)


def queue_machine(ctx):
    machine_run(ctx, QueueMachine, ctx.budget, steps=30)


# ---------------------------------------------------------------------------------------- exhaustive

OPS = [("ins", 0.0), ("ins", 1.0), ("ins", 2.0), ("get",), ("set", 0.0), ("set", 1.0), ("set", 2.0), ("clear",),
       ("refill",)]


def run_sequence(variant, maxlen, seq):
    h = Harness(variant, maxlen)
    h.first(-math.inf, -math.inf, 1.0, 1.0)
    nxt = 0
    mids = [0.5, 0.25, 0.75, 0.125, 0.625, 0.375, 0.875]
    for op in seq:
        if op[0] == "ins":
            h.insert(mids[nxt], op[1], op[1], hint=(nxt % 2 == 0))
            nxt += 1
        elif op[0] == "get":
            h.get_best("g")
            if variant == "dual":
                h.get_best("l")
        elif op[0] == "set":
            h.set_char(len(h.items) - 1, "g", op[1])
            h.set_char(len(h.items) - 1, "l", op[1])
        elif op[0] == "clear":
            h.clear()
        else:
            h.refill()
    run_sequence.strict += h.strict
    run_sequence.lenient += h.lenient
    return h.nontrivial


run_sequence.strict = 0
run_sequence.lenient = 0


def enumerated(ctx):
    ctx.exhaustive = True
    maxlen_len = ctx.budget
    idx = 0
    for variant in ("sd", "dual"):
        for maxlen in (None, 2):
            for n in range(1, maxlen_len + 1):
                for seq in itertools.product(range(len(OPS)), repeat=n):
                    idx += 1
                    if idx % ctx.nshards != ctx.shard:
                        continue
                    ops = [OPS[i] for i in seq]
                    try:
                        nt = guarded(lambda _c: run_sequence(variant, maxlen, ops), None)
                    except Violation as v:
                        ctx.violation({"variant": variant, "maxlen": maxlen, "ops": ops}, str(v))
                        return
                    ctx.count(1, ["enumerated:%s:maxlen=%s" % (variant, maxlen)], nontrivial=1 if nt else 0)
    ctx.record({"variant": "dual", "maxlen": 2, "ops": [OPS[0], OPS[4], OPS[3]]}, False, [])
    ctx.extra["get_best_strict"] = run_sequence.strict
    ctx.extra["get_best_lenient_after_tie"] = run_sequence.lenient


SUBCHECKS = {"sd_machine": sd_machine, "dual_machine": dual_machine, "queue_machine": queue_machine,
             "enumerated": enumerated}


def replay(kind, case):
    if kind == "enumerated":
        run_sequence(case["variant"], case["maxlen"], [tuple(o) for o in case["ops"]])
        return
    cls = {"sd_machine": SdMachine, "dual_machine": DualMachine, "queue_machine": QueueMachine}[kind]
    cls._st = {"best": None, "after": 0}
    cls._ctx = None
    m = cls()
    for s in case["steps"]:
        if s[0] == "start":
            m._start(*s[1:])
        elif kind == "queue_machine":
            getattr(m, "_" + s[0])(*s[1:])
        else:
            getattr(m.h, s[0])(*s[1:])
