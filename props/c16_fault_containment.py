"""C16 - objective failure is contained: Solve returns the best-so-far result."""
from hypothesis import strategies as st

from vlib import gen
from vlib.agp import Run, best_of, replay_history, swallowed_exception_is_float_resolution
from vlib.objectives import ObjectiveFailure
import math

from vlib.runner import fail, hyp_run, Violation
from vlib.searchinv import check_search_data, check_reported_best

LEVEL = "fault_enumeration"
RULE = ("For each Hypothesis-generated problem and parameter set a clean Solve() of n<=60 (quick) / 80 (thorough) "
        "trials is recorded; then the objective is armed to raise on its k-th evaluation for EVERY k in 2..n and for "
        "each of 9 exception types (ValueError, ZeroDivisionError, custom Exception, custom BaseException, "
        "KeyboardInterrupt, SystemExit, GeneratorExit, StopIteration, MemoryError), built with a message, with no "
        "argument at all or with several arguments (the form rotates with k and the type), and Solve is run again. Oracle: Solve returns; successful "
        "evaluations = first k-1 of the clean run; trial count, best point/value reflect exactly those; the search "
        "information passes the C06 invariants with k-1 trials (failed point absent); the notice is printed. One "
        "evaluation = one (problem, k, exception type) fault run. Non-trivial: k such that trial k-1 set a new "
        "optimum or increased M (the recalculation paths), counted from the clean run.")
ASSUMPTIONS = [
    "fault positions are enumerated completely for each sampled run; the runs themselves are sampled",
    "refineSolution=False; the fault is raised by the objective wrapper before it logs the evaluation",
]
NONTRIVIAL_FLOOR = {"quick": 300, "thorough": 3000}


class CustomError(Exception):
    pass


EXC = {"ValueError": ValueError, "ZeroDivisionError": ZeroDivisionError, "CustomError": CustomError,
       "ObjectiveFailure": ObjectiveFailure, "KeyboardInterrupt": KeyboardInterrupt, "SystemExit": SystemExit,
       "GeneratorExit": GeneratorExit, "StopIteration": StopIteration, "MemoryError": MemoryError}
# how the exception object is built: with a message, with no argument at all (a real Ctrl-C is a bare
# KeyboardInterrupt), with several arguments.  The form rotates with the fault position and the type, so every
# (type, form) pair occurs in every enumerated run of length >= 4.
FORMS = (None, (), (3, "three"))

import numpy as _np
NP_ERR = dict(_np.geterr())      # whatever a solver does, the process-wide numpy error state is left as it was
NMAX = {"quick": 60, "thorough": 80}
_tier = ["quick"]


# thorough tier: coverage-guided (atheris) drive of the same generator and oracle: kind -> (shards, cases per shard)
FUZZ = {"enumerated": (8, 30)}


def plan(tier):
    return [("enumerated", 16, 6 if tier == "quick" else 60)]


@st.composite
def cases(draw):
    recipe = draw(gen.problem_recipe(densities=(10, 10, 6), styles=True, offsets=True))
    limit = draw(st.one_of(st.sampled_from([2, 3, 5]), st.integers(20, NMAX[_tier[0]]), st.integers(20, NMAX[_tier[0]]),
                           st.just(NMAX[_tier[0]])))
    params = {"r": draw(gen.r_values),
              "eps": draw(gen.eps_values(recipe["n"], recipe["density"], cheap=False, upto=0.01)),
              "itersLimit": limit}
    sp = draw(gen.start_points(recipe))
    if sp is not None:
        params["startPoint"] = sp
    return {"recipe": recipe, "params": params}


def fault_run(case, k, excname, clean, form=0, acc=None, resume=False):
    run = Run(case["recipe"], case["params"])
    run.problem.fail_at = k
    run.problem.fail_exc = EXC[excname]
    run.problem.fail_args = FORMS[form]
    how = "%s(%s)" % (excname, "'message'" if FORMS[form] is None else ", ".join(map(repr, FORMS[form])))
    try:
        sol = run.solve()
    except BaseException as e:
        fail("%s raised by the objective at evaluation %d escaped from Solve (as %s: %s)" %
             (how, k, type(e).__name__, str(e)[:100]))
    who = "objective raising %s at evaluation %d of %d: " % (how, k, len(clean))
    got = [(y, v) for _, y, v in run.problem.log]
    if got != clean[:k - 1]:
        fail(who + "%d successful evaluations, expected the first %d of the clean run" % (len(got), k - 1))
    if sol is None:
        fail(who + "Solve returned None")
    if sol.numberOfGlobalTrials != k - 1:
        fail(who + "numberOfGlobalTrials=%r, expected %d" % (sol.numberOfGlobalTrials, k - 1))
    pt, val = best_of(sol)
    check_reported_best(pt, val, run.problem.log, run.problem, who=who)
    check_search_data(run, who=who)
    told = [sv for e in run.rec.events if e[0] == "iter" for sv in e[3]]
    if told != got:
        fail(who + "the listener was told about %d trials, %d were completed (first difference at trial %d): the "
             "failed point must not be reported as a trial" %
             (len(told), len(got), next((i + 1 for i, (a, b) in enumerate(zip(told, got)) if a != b),
                                        min(len(told), len(got)) + 1)))
    if "Exception was thrown" not in run.stdout():
        fail(who + "Solve printed no notice about the swallowed exception")
    res = run.results()
    if best_of(res) != (pt, val):
        fail(who + "GetResults() differs from the Solution returned by Solve")
    import numpy as np
    if np.geterr() != NP_ERR:
        fail(who + "numpy's floating-point error handling was left changed: %r, was %r" % (np.geterr(), NP_ERR))
    # the result reflects exactly the k-1 completed trials - the accuracy too: the smallest Hoelder length of an
    # interval that was subdivided by one of them (acc[j]: that minimum over the first j trials of the clean run)
    if acc is not None:
        want = acc[k - 1]
        rep = float(sol.solutionAccuracy)
        if not (rep == want or (math.isfinite(want) and abs(rep - want) <= 4 * math.ulp(want))):
            fail(who + "reported accuracy %r, but the smallest interval subdivided by the %d completed trials has "
                 "Hoelder length %r" % (rep, k - 1, want))
    if resume:
        # the fault was transient: the same solver goes on, and every trial of the continued search is placed by the
        # decision rule from all completed trials (the interval chosen for the failed trial must not be lost)
        sol2 = run.solve()
        if run.problem.calls <= k:
            return
        who2 = who + "search continued by a second Solve: "
        if sol2.numberOfGlobalTrials != len(run.problem.log):
            fail(who2 + "numberOfGlobalTrials=%r, but %d evaluations were completed" %
                 (sol2.numberOfGlobalTrials, len(run.problem.log)))
        check_search_data(run, who=who2)
        try:
            replay_history(run.n, case["params"]["r"], run.history(), check_rule=True)
        except Violation as v:
            fail(who2 + str(v))


def refine_fault_run(case, k, excname, nglobal, ntotal):
    """refineSolution=True: the objective fails at evaluation k, in the global phase or during the local refinement.
    Solve returns; the global trial count is the number of completed global trials; the reported value is the
    objective at the reported point, which is one of the points that were evaluated."""
    run = Run(case["recipe"], case["params"], refine=True)
    run.problem.fail_at = k
    run.problem.fail_exc = EXC[excname]
    try:
        sol = run.solve()
    except BaseException as e:
        fail("refineSolution=True: %s raised by the objective at evaluation %d (%s phase; a clean run makes %d global "
             "and %d local evaluations) escaped from Solve (as %s: %s)" %
             (excname, k, "global" if k <= nglobal else "local refinement", nglobal, ntotal - nglobal,
              type(e).__name__, str(e)[:100]))
    who = "refineSolution=True, objective raising %s at evaluation %d: " % (excname, k)
    want_global = min(k - 1, nglobal)
    if sol.numberOfGlobalTrials != want_global:
        fail(who + "numberOfGlobalTrials=%r, expected %d" % (sol.numberOfGlobalTrials, want_global))
    pt, val = best_of(sol)
    log = run.problem.log
    if not any(y == pt for _, y, _ in log):
        fail(who + "reported best point %r is not one of the %d evaluated points" % (pt, len(log)))
    if run.problem.value_at(pt) != val:
        fail(who + "reported best value %r differs from the objective %r at the reported point" %
             (val, run.problem.value_at(pt)))
    gbest = min(v for _, _, v in log[:want_global])
    if val > gbest:
        fail(who + "reported best value %r is worse than the best completed global trial %r" % (val, gbest))


def painter_fault_run(case, k, excname, clean, spec, persistent):
    """A shipped static painter that draws the objective (as the repository's examples attach it) is a listener of
    the run; it evaluates the objective on a grid when the method stops, inside Solve.  persistent: the objective
    fails at evaluation k and at every later one; otherwise it fails once, at evaluation k > len(clean), i.e. at one of
    the painter's own evaluations.  Solve returns and reports the completed trials."""
    import shutil
    import tempfile
    import matplotlib
    matplotlib.use("Agg")
    import matplotlib.pyplot as plt
    from vlib.painters import make_painter
    outdir = tempfile.mkdtemp(prefix="c16p-")
    try:
        run = Run(case["recipe"], case["params"])
        run.solver.AddListener(make_painter(spec, run.n, outdir))
        run.problem.fail_at = k
        run.problem.fail_from = persistent
        run.problem.fail_exc = EXC[excname]
        who = "%s painter attached, objective raising %s %s evaluation %d (a clean run makes %d trials): " % (
            spec["kind"], excname, "from" if persistent else "once, at", k, len(clean))
        try:
            sol = run.solve()
        except BaseException as e:
            fail(who + "the exception escaped from Solve (as %s: %s); %d trials were completed" %
                 (type(e).__name__, str(e)[:100], min(k - 1, len(clean))))
        done = min(k - 1, len(clean))
        got = [(y, v) for _, y, v in run.problem.log]
        if got[:done] != clean[:done] or (persistent and len(got) != done):
            fail(who + "%d successful evaluations, expected the first %d of the clean run" % (len(got), done))
        if sol is None or sol.numberOfGlobalTrials != done:
            fail(who + "numberOfGlobalTrials=%r, expected %d" % (getattr(sol, "numberOfGlobalTrials", None), done))
        pt, val = best_of(sol)
        check_reported_best(pt, val, run.problem.log[:done], run.problem, who=who)
        told = [sv for e in run.rec.events if e[0] == "iter" for sv in e[3]]
        if told != got[:done]:
            fail(who + "the listener was told about %d trials, %d were completed" % (len(told), done))
        if persistent:
            check_search_data(run, who=who)
    finally:
        plt.close("all")
        shutil.rmtree(outdir, ignore_errors=True)


def body(case):
    clean_run = Run(case["recipe"], case["params"])
    clean_run.solve()
    if "Exception was thrown" in clean_run.stdout():
        if not swallowed_exception_is_float_resolution(clean_run):
            fail("the clean run (no fault armed) swallowed an internal exception after %d trials" %
                 len(clean_run.problem.log))
        return False, ["clean-run-float-resolution"]
    clean = [(y, v) for _, y, v in clean_run.problem.log]
    n = len(clean)
    hist = clean_run.history()
    model, info = replay_history(clean_run.n, case["params"]["r"], hist, check_rule=False)
    interesting = 0
    runs = 0
    # acc[j]: smallest Hoelder length of an interval subdivided by the first j trials (inf for j <= 1)
    acc = [math.inf, math.inf]
    for rec in info[1:]:
        acc.append(min(acc[-1], rec["D"]))
    for k in range(2, n + 1):
        prev = info[k - 2]           # trial k-1
        hot = prev["improved"] or prev["grew"]
        for idx, name in enumerate(EXC):
            fault_run(case, k, name, clean, (k + idx) % len(FORMS), acc=acc, resume=((k + idx) % 4 == 0))
            runs += 1
            if hot:
                interesting += 1
    # the same with refineSolution=True for a few fault positions, the local phase included
    if n <= 40:
        rclean = Run(case["recipe"], case["params"], refine=True)
        rclean.solve()
        if "Exception was thrown" not in rclean.stdout():
            ntotal = len(rclean.problem.log)
            ks = sorted(set([2, max(2, n // 2), n, n + 1, (n + ntotal) // 2, ntotal]))
            for j, k in enumerate(k for k in ks if 2 <= k <= ntotal):
                refine_fault_run(case, k, list(EXC)[(j + n) % len(EXC)], n, ntotal)
                runs += 1
    # a shipped painter that draws the objective is attached: a failure that persists reaches the painter's own
    # evaluations when the method stops, and so does a single failure placed among them
    if n <= 60:
        nn = clean_run.n
        spec = ({"kind": "staticnd", "pair": [0, nn - 1], "mode": "lines layers", "calc": "objective function"}
                if nn >= 2 and n % 2 == 0 else
                {"kind": "static1d", "mode": "objective function", "bottom": bool(n % 3 == 0), "indx": n % nn})
        names = list(EXC)
        painter_fault_run(case, max(2, n // 2), names[n % len(names)], clean, spec, True)
        painter_fault_run(case, n + 1 + (7 * n) % 140, names[(n + 3) % len(names)], clean, spec, False)
        runs += 2
    body.counted += runs
    body.hot += interesting
    classes = ["N=%d" % clean_run.n, "clean-trials=%s" % ("<10" if n < 10 else ("<40" if n < 40 else ">=40"))]
    return n >= 3, classes, {"case": case, "clean_trials": n, "fault_runs": runs, "after_recalc_event": interesting}


body.counted = 0
body.hot = 0


def enumerated(ctx):
    _tier[0] = ctx.tier
    body.counted = 0
    body.hot = 0
    hyp_run(ctx, cases(), body, ctx.budget, shrink_calls=40)
    ctx.count(body.counted, ["fault-runs"], nontrivial=body.hot)


SUBCHECKS = {"enumerated": enumerated}


def replay(kind, case):
    body(case)
