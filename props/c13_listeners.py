"""C13 - listener contract: complete, ordered, non-interfering notification."""
import os
import re
import shutil
import tempfile

from hypothesis import strategies as st

from vlib import gen
from vlib.agp import Run, best_of, make_recorder
from vlib.runner import fail, hyp_run, exception_origin, REPO

LEVEL = "exploration"
RULE = ("Hypothesis-generated: problem dimension 1..4, objective, parameters, a batching of the iterations into "
        "DoGlobalIteration(k) calls followed (usually) by Solve, and a listener list made of 0-3 generated classes "
        "derived from the base Listener overriding any of the 8 subsets of callbacks plus shipped listeners "
        "(ConsoleFullOutputListener full/custom/result; StaticPaintListener in 4 modes x isPointsAtBottom; "
        "StaticNDPaintListener in its 4 valid mode/calc pairs; AnimationPaintListener; AnimationNDPaintListener; "
        "painters only where they apply). Two recording listeners (first and last in the list) share an event "
        "counter with the objective. Oracle: notification count / order / content, no exception escapes, trial "
        "sequence, local-refinement evaluations and result equal to the same run without listeners (refineSolution "
        "on in a third of the cases that call Solve), console final report equals the solution. Trials are compared "
        "with the values they had when they were delivered. Generated listeners may have value equality and may inherit "
        "their callbacks from an intermediate class; SolverParameters.startPoint may be set; in a sixth of the painter-free "
        "cases the objective raises at its k-th evaluation (weak oracle: no trial is reported that was not evaluated). "
        "Non-trivial: (a non-overridden callback or a shipped listener) together with a batch of size > 1.")
ASSUMPTIONS = [
    "objective probes made by painters inside callbacks are recognised by event number (between the first and the "
    "last recorder's notification of the same event) and excluded from the trial log, not from result comparison",
    "solvingTime is excluded from the result comparison",
    "an exception raised inside third-party code (scipy interpolation / sklearn) called by an 'interpolation' or "
    "'approximation' painter on degenerate data (too few or coincident points) is counted as painter-precondition, "
    "not as a violation; painter cases are generated with at least 6 trials to keep this rare",
    "matplotlib runs with the Agg backend; images go to a per-case temporary directory that is removed",
]
NONTRIVIAL_FLOOR = {"quick": 60, "thorough": 600}
WATCHDOG_S = {"quick": 1800, "thorough": 6 * 3600}


def plan(tier):
    return [("generated", 16, (640 if tier == "quick" else 8000) // 16)]


CALLBACKS = ("BeforeMethodStart", "OnEndIteration", "OnMethodStop")


def make_custom(overrides, sink, value_eq=False, indirect=False):
    from iOpt.method.listener import Listener
    body = {}
    if value_eq:
        # a listener with value equality (what @dataclass gives a field-less recorder): two distinct listener
        # objects of this kind compare equal, both are listeners in their own right
        body["__eq__"] = lambda self, other: type(other).__name__ == type(self).__name__
        body["__hash__"] = lambda self: hash(type(self).__name__)
    # the overrides use parameter names of the user's own choice: the callbacks are a positional contract
    if "BeforeMethodStart" in overrides:
        def BeforeMethodStart(self, theMethod):
            sink.append("start")
        body["BeforeMethodStart"] = BeforeMethodStart
    if "OnEndIteration" in overrides:
        def OnEndIteration(self, newTrials, currentSolution):
            sink.append("iter%d" % len(newTrials))
        body["OnEndIteration"] = OnEndIteration
    if "OnMethodStop" in overrides:
        def OnMethodStop(self, data, finalSolution, stopped):
            sink.append("stop")
        body["OnMethodStop"] = OnMethodStop
    name = "Custom_" + "_".join(sorted(overrides)) or "Custom_none"
    if indirect:
        # the callbacks are inherited from an intermediate class (a mixin / a user's own base listener): the listener's
        # own class body is empty
        base = type(name + "_Base", (Listener,), body)
        return type(name, (base,), {})()
    return type(name, (Listener,), body)()


def tap(listener, errors):
    """The listener itself, with its three callbacks reporting any exception that leaves them to `errors` (and raising
    it on): Process.Solve catches what a callback raises, so the exception object would be lost otherwise."""
    for name in ("BeforeMethodStart", "OnEndIteration", "OnMethodStop"):
        orig = getattr(listener, name)

        def wrapped(*a, _orig=orig, **k):
            try:
                return _orig(*a, **k)
            except Exception as e:
                errors.append(e)
                raise
        setattr(listener, name, wrapped)
    return listener


def make_shipped(spec, n, outdir):
    from iOpt.method import listener as L
    kind = spec["kind"]
    if kind == "console":
        return L.ConsoleFullOutputListener(mode=spec["mode"], iters=spec.get("iters", 100))
    if kind == "static1d":
        return L.StaticPaintListener("s1d.png", outdir, indx=spec.get("indx", 0) % n,
                                     isPointsAtBottom=spec["bottom"], mode=spec["mode"])
    if kind == "staticnd":
        return L.StaticNDPaintListener("snd.png", outdir, varsIndxs=spec["pair"], mode=spec["mode"],
                                       calc=spec["calc"])
    if kind == "anim1d":
        return L.AnimationPaintListener("a1d.png", outdir, isPointsAtBottom=spec["bottom"],
                                        toPaintObjFunc=spec["paint"])
    if kind == "animnd":
        return L.AnimationNDPaintListener("and.png", outdir, varsIndxs=spec["pair"], toPaintObjFunc=spec["paint"])
    raise ValueError(kind)


@st.composite
def shipped_specs(draw, n):
    kinds = ["console", "console", "static1d"]
    if n == 1:
        kinds += ["anim1d"]
    else:
        kinds += ["staticnd", "animnd"]
    kind = draw(st.sampled_from(kinds))
    if kind == "console":
        return {"kind": kind, "mode": draw(st.sampled_from(["full", "custom", "result"])),
                "iters": draw(st.sampled_from([1, 2, 3, 10, 100]))}
    if kind == "static1d":
        # 1-D painter: on an N-D problem it draws the section through the optimum along variable indx
        return {"kind": kind, "mode": draw(st.sampled_from(["objective function", "only points", "approximation",
                                                            "interpolation"])),
                "bottom": draw(st.booleans()), "indx": draw(st.integers(0, n - 1))}
    if kind == "anim1d":
        return {"kind": kind, "bottom": draw(st.booleans()), "paint": draw(st.booleans())}
    pair = draw(st.permutations(list(range(n))))[:2]
    if kind == "staticnd":
        mode, calc = draw(st.sampled_from([("lines layers", "objective function"), ("lines layers", "interpolation"),
                                           ("surface", "approximation"), ("surface", "interpolation")]))
        return {"kind": kind, "pair": list(pair), "mode": mode, "calc": calc}
    return {"kind": kind, "pair": list(pair), "paint": draw(st.booleans())}


@st.composite
def cases(draw):
    recipe = draw(gen.problem_recipe(dims=(1, 2, 3, 4)))
    n = recipe["n"]
    customs = draw(st.lists(st.lists(st.sampled_from(CALLBACKS), unique=True, max_size=3), max_size=3))
    painters = draw(st.integers(0, 2)) == 0
    shipped = []
    if painters or draw(st.booleans()):
        shipped = draw(st.lists(shipped_specs(n), min_size=1, max_size=2))
        if not painters:
            shipped = [s for s in shipped if s["kind"] == "console"]
    has_painter = any(s["kind"] != "console" for s in shipped)
    lo_total = 6 if has_painter else 1
    total = draw(st.integers(lo_total, 25 if has_painter else 60))
    params = {"r": draw(gen.r_values), "eps": draw(gen.eps_values(n, 10, cheap=False, upto=0.02)),
              "itersLimit": draw(st.sampled_from([total, total + 5, 200]))}
    if has_painter:
        params["itersLimit"] = min(params["itersLimit"], 30)
    batches = draw(gen.compositions(draw(st.integers(1, total)), max_parts=6)) if draw(st.integers(0, 4)) else []
    ops = batches + (["solve"] if (not batches or draw(st.integers(0, 3))) else [])
    if has_painter and "solve" not in ops:
        ops = ops + ["solve"]
    if ops and ops[-1] == "solve" and draw(st.integers(0, 5)) == 0 and not has_painter:
        ops = ops + ["solve"]
    # refineSolution=True: Solve ends with the local refinement, which rewrites the best trial in place; the
    # OnMethodStop solution and the console report must show the refined result
    refine = "solve" in ops and draw(st.integers(0, 2)) == 0
    case = {"recipe": recipe, "params": params, "customs": customs, "shipped": shipped, "ops": ops, "refine": refine}
    case["value_eq"] = draw(st.integers(0, 3)) == 0
    case["indirect"] = draw(st.integers(0, 3)) == 0
    if draw(st.integers(0, 3)) == 0:
        # a user problem that declares only what iOpt.problem.Problem declares (no `dimension` attribute)
        case["recipe"] = dict(recipe, style=dict(recipe.get("style") or {}, no_dimension=True))
    sp = draw(gen.start_points(recipe))
    if sp is not None:
        case["params"] = dict(params, startPoint=sp)
    if not has_painter and draw(st.integers(0, 5)) == 0:
        # the objective fails at its k-th evaluation while listeners are attached
        case["fail_at"] = draw(st.integers(2, max(2, min(total, 30))))
        case["refine"] = False
    return case


def summary(sol):
    return (best_of(sol), sol.numberOfGlobalTrials, sol.numberOfLocalTrials, float(sol.solutionAccuracy))


def plain_reference(case):
    """Run without listeners: (global trial sequence, local-refinement evaluations, result summary)."""
    run = Run(case["recipe"], case["params"], record=False, refine=case.get("refine", False))
    glob, loc = [], []
    for op in case["ops"]:
        start = len(run.problem.log)
        if op == "solve":
            g0 = run.results().numberOfGlobalTrials
            sol = run.solve()
            new = [(y, v) for _, y, v in run.problem.log[start:]]
            k = sol.numberOfGlobalTrials - g0      # global trials of this Solve come first, refinement after
            glob += new[:k]
            loc += new[k:]
        else:
            run.step(op)
            glob += [(y, v) for _, y, v in run.problem.log[start:]]
    plain_reference.notices = run.stdout().count("Exception was thrown")
    return glob, loc, summary(run.results())


plain_reference.notices = 0
PAINTER_MODES_FRAGILE = ("interpolation", "approximation")


def fault_body(case):
    """Listeners attached and the objective raises at evaluation k.  Deliberately weak oracle (the statement does
    not say what a failed batch reports): no exception other than the injected one reaches the caller, none at all
    from Solve; every trial a listener is told about was really evaluated, in order, with its value; each Solve
    that returns has told OnMethodStop."""
    n = case["recipe"]["n"]
    clock = [0]
    sink = []
    run = Run(case["recipe"], case["params"], record=False, clock=clock)
    first = make_recorder(clock)
    run.solver.AddListener(first)
    for ov in case["customs"]:
        run.solver.AddListener(make_custom(ov, sink, case.get("value_eq", False), case.get("indirect", False)))
    for spec in case["shipped"]:
        if spec["kind"] == "console":
            run.solver.AddListener(make_shipped(spec, n, None))
    run.problem.fail_at = case["fail_at"]
    run.problem.fail_exc = ValueError
    nsolve = 0
    for op in case["ops"]:
        try:
            if op == "solve":
                run.solve()
                nsolve += 1
            else:
                run.step(op)
        except ValueError as e:
            if "injected failure" not in str(e) or op == "solve":
                raise
            break
        except Exception as e:
            if "outside of interval" in str(e):
                return False, ["float-resolution"]
            raise
    log = [(y, v) for _, y, v in run.problem.log]
    told = [sv for e in first.events if e[0] == "iter" for sv in e[3]]
    if len(told) > len(log) or told != log[:len(told)]:
        k = next((i for i, t in enumerate(told) if i >= len(log) or t != log[i]), len(log))
        fail("objective failing at evaluation %d: notification %d reports the trial %r, which was never evaluated "
             "(%d evaluations completed)" % (case["fail_at"], k + 1, told[k] if k < len(told) else None, len(log)))
    stops = sum(1 for e in first.events if e[0] == "stop")
    if stops != nsolve:
        fail("objective failing at evaluation %d: %d Solve calls returned but %d OnMethodStop notifications" %
             (case["fail_at"], nsolve, stops))
    failed = run.problem.calls >= case["fail_at"]
    return failed and bool(told), ["N=%d" % n, "objective-fault:" + ("hit" if failed else "not-reached")]


def body(case):
    import matplotlib
    import matplotlib.pyplot as plt
    if case.get("fail_at") is not None:
        return fault_body(case)
    n = case["recipe"]["n"]
    try:
        ref_seq, ref_loc, ref_sum = plain_reference(case)
    except Exception as e:
        if "outside of interval" in str(e):
            return False, ["float-resolution"]
        raise
    outdir = tempfile.mkdtemp(prefix="c13-")
    sink = []
    try:
        clock = [0]
        run = Run(case["recipe"], case["params"], record=False, clock=clock, refine=case.get("refine", False))
        first, last = make_recorder(clock), make_recorder(clock)
        run.solver.AddListener(first)
        for ov in case["customs"]:
            run.solver.AddListener(make_custom(ov, sink, case.get("value_eq", False), case.get("indirect", False)))
        swallowed, crashed = [], []
        for spec in case["shipped"]:
            run.solver.AddListener(tap(make_shipped(spec, n, outdir), swallowed))
        run.solver.AddListener(last)
        returned = []
        nsolve = 0
        calls = []          # (op, number of 'iter' events of `first` before, after)
        local_windows = []  # (clock, clock]: evaluations of the local refinement inside a Solve
        for op in case["ops"]:
            before = sum(1 for e in first.events if e[0] == "iter")
            c0 = clock[0]
            try:
                if op == "solve":
                    returned.append(run.solve())
                    nsolve += 1
                else:
                    run.step(op)
            except Exception as e:
                swallowed.append(e)
                escaped = True
            else:
                escaped = False
            for e in list(swallowed):
                # an exception left a shipped listener's callback: either it came out of the call, or Solve caught it
                # (it catches whatever a callback raises and goes on)
                who, where = exception_origin(e)
                fragile = any(s.get("mode") in PAINTER_MODES_FRAGILE or s.get("calc") in PAINTER_MODES_FRAGILE
                              for s in case["shipped"])
                import traceback
                tb = traceback.extract_tb(e.__traceback__)
                deepest_in_repo = bool(tb) and os.path.realpath(tb[-1].filename).startswith(REPO + os.sep)
                if fragile and "painters" in where and not deepest_in_repo:
                    if escaped and op == "solve":
                        fail("%s raised by a shipped painter's own fit in OnMethodStop escaped from Solve: the caller "
                             "gets no result and the listeners after the painter are not told that Solve ended (%s)" %
                             (type(e).__name__, str(e)[:120]))
                    if escaped:
                        return False, ["painter-precondition:" + type(e).__name__]
                    # the painter's own fit failed inside its callback and Solve went on: everything else - what the
                    # other listeners are told, the trial sequence, the result - is still checked
                    crashed.append(type(e).__name__)
                    swallowed.remove(e)
                else:
                    fail("%s raised while listeners were attached (%r): %s at %s: %s" %
                         (type(e).__name__, op, who, where, str(e)[:160]))
            after = sum(1 for e in first.events if e[0] == "iter")
            calls.append((op, before, after))
            if op == "solve" and case.get("refine"):
                # between the end of the last iteration notification of this Solve and its OnMethodStop
                its = [e for e in last.events if e[0] == "iter"][before:after]
                stop = [e for e in first.events if e[0] == "stop"]
                if stop:
                    local_windows.append((its[-1][1] if its else c0, stop[-1][1]))
        # ---- trial log without the painters' probes
        windows = []
        for ef, el in zip(first.events, last.events):
            if ef[0] != el[0]:
                fail("the first and the last listener saw different notifications: %r vs %r" % (ef[0], el[0]))
            windows.append((ef[1], el[1]))
        if len(first.events) != len(last.events):
            fail("listeners were notified a different number of times (%d vs %d)" % (len(first.events),
                                                                                     len(last.events)))
        def probe(ev):
            return any(a < ev <= b for a, b in windows)
        def local(ev):
            return any(a < ev <= b for a, b in local_windows)
        trials = [(ev, y, v) for ev, y, v in run.problem.log if not probe(ev) and not local(ev)]
        locals_ = [(y, v) for ev, y, v in run.problem.log if local(ev) and not probe(ev)]
        nprobes = len(run.problem.log) - len(trials) - len(locals_)
        # ---- notification contract (seen by the first listener)
        starts = [e for e in first.events if e[0] == "start"]
        if len(starts) != 1:
            fail("BeforeMethodStart was delivered %d times" % len(starts))
        if starts[0][1] != 0 or first.events[0][0] != "start":
            fail("BeforeMethodStart was delivered after %d objective evaluations" % starts[0][1])
        iters = [e for e in first.events if e[0] == "iter"]
        pos = 0
        for op, b, a in calls:
            evs = iters[b:a]
            if op != "solve":
                if len(evs) != 1:
                    fail("DoGlobalIteration(%d) produced %d OnEndIteration notifications" % (op, len(evs)))
                if len(evs[0][2][0]) != op:
                    fail("DoGlobalIteration(%d) delivered %d new trials" % (op, len(evs[0][2][0])))
            for e in evs:
                pts = e[2][0]
                if op == "solve" and len(pts) != 1:
                    fail("an iteration inside Solve delivered %d new trials" % len(pts))
                for it, (sy, sz) in zip(pts, e[3]):
                    if pos >= len(trials):
                        fail("a notification carries more trials than were evaluated")
                    _, y, v = trials[pos]
                    if sy != y or sz != v:
                        fail("notification %d delivers trial (%r, %r) but evaluation %d was (%r, %r)" %
                             (pos + 1, list(sy), sz, pos + 1, y, v))
                    if trials[pos][0] > e[1]:
                        fail("a trial was delivered before it was evaluated")
                    pos += 1
        if pos != len(trials):
            fail("%d trials were evaluated but only %d were delivered through OnEndIteration" % (len(trials), pos))
        stops = [e for e in first.events if e[0] == "stop"]
        if len(stops) != nsolve:
            fail("%d Solve calls but %d OnMethodStop notifications" % (nsolve, len(stops)))
        for e, ret in zip(stops, returned):
            if e[2][1] is not ret and summary(e[2][1]) != summary(ret):
                fail("OnMethodStop delivered a solution different from the one Solve returned")
        # ---- generated listeners saw what they override
        want_sink = []
        # (order inside one event follows the listener list; compare as multisets per kind)
        exp = {"start": 1, "stop": nsolve}
        for ov in case["customs"]:
            if "BeforeMethodStart" in ov and sink.count("start") < 1:
                fail("a listener overriding BeforeMethodStart was never told")
        nstart = sum(1 for ov in case["customs"] if "BeforeMethodStart" in ov)
        nstop = sum(1 for ov in case["customs"] if "OnMethodStop" in ov)
        niter = sum(1 for ov in case["customs"] if "OnEndIteration" in ov)
        if sink.count("start") != nstart or sink.count("stop") != nstop * nsolve or \
                sum(1 for s in sink if s.startswith("iter")) != niter * len(iters):
            fail("generated listeners received %r, expected %d start, %d stop, %d iteration notifications" %
                 (sink[:12], nstart, nstop * nsolve, niter * len(iters)))
        # ---- non-interference
        got_seq = [(y, v) for _, y, v in trials]
        if got_seq != ref_seq:
            fail("with listeners attached the trial sequence differs from the run without listeners "
                 "(%d vs %d trials)" % (len(got_seq), len(ref_seq)))
        if locals_ != ref_loc:
            fail("with listeners attached the local refinement made %d evaluations, without listeners %d (or at "
                 "different points)" % (len(locals_), len(ref_loc)))
        if summary(run.results()) != ref_sum:
            fail("with listeners attached the result is %r, without listeners %r" % (summary(run.results()), ref_sum))
        # ---- nothing that Solve had to contain: Solve prints a notice for every exception it swallows; with listeners
        # attached there must be as many as without (plus one per painter fit failure that was recorded above)
        notices = run.stdout().count("Exception was thrown")
        if notices != plain_reference.notices + len(crashed):
            fail("with listeners attached Solve swallowed %d exception(s) (its notice 'Exception was thrown'), without "
                 "listeners %d, and %d painter fit failure(s) were recorded: a callback of an attached listener raised" %
                 (notices, plain_reference.notices, len(crashed)))
        # ---- console final report
        for spec in case["shipped"]:
            if spec["kind"] == "console" and nsolve:
                check_console(run.stdout(), run.results())
        has_gap = any(len(ov) < 3 for ov in case["customs"]) or bool(case["shipped"])
        big_batch = any(op != "solve" and op > 1 for op in case["ops"])
        classes = ["N=%d" % n, "customs=%d" % len(case["customs"]), "probes>0" if nprobes else "probes=0",
                   "refine" if case.get("refine") else "no-refine"]
        if crashed:
            classes.append("painter-fit-failed-inside-OnMethodStop")
        classes += ["shipped=" + s["kind"] + (":" + s["mode"] if "mode" in s else "") for s in case["shipped"]]
        if case.get("value_eq") and len(case["customs"]) >= 2:
            classes.append("value-equal-listeners")
        for ov in case["customs"]:
            classes.append("override=" + ("+".join(c[:6] for c in sorted(ov)) or "none"))
        return (has_gap and big_batch), classes
    finally:
        plt.close("all")
        shutil.rmtree(outdir, ignore_errors=True)


def check_console(out, sol):
    blocks = out.split("Result")
    if len(blocks) < 2:
        fail("console listener printed no final report")
    tail = blocks[-1]

    def field(name):
        m = re.search(r"\|\s*" + re.escape(name) + r"\s*(.*?)\s*\|\s*$", tail, re.M)
        if not m:
            fail("console final report has no line %r" % name)
        return m.group(1).strip()

    pt, val = sol.bestTrials[0].point.floatVariables, sol.bestTrials[0].functionValues[0].value
    exp = {
        "global iteration count:": str(sol.numberOfGlobalTrials),
        "local iteration count:": str(sol.numberOfLocalTrials),
        "solution point:": str(pt),
        "solution value:": "{:.8f}".format(val),
        "accuracy:": "{:.8f}".format(sol.solutionAccuracy),
    }
    for k, v in exp.items():
        got = field(k)
        if got != v.strip():
            fail("console final report prints %s %r but the solution has %r" % (k, got, v))


def generated(ctx):
    hyp_run(ctx, cases(), body, ctx.budget, shrink_calls=60)


SUBCHECKS = {"generated": generated}


def replay(kind, case):
    body(case)
