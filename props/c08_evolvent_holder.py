"""C08 - the evolvent is a continuous (Hoelder) space-filling curve."""
import math

from hypothesis import strategies as st

from vlib import evo
from vlib.runner import fail, hyp_run
from props.c07_evolvent_bijection import make, check_children, vias

LEVEL = "exploration"
RULE = ("(a) exhaustive: for every N in 2..5 and every m with N*m <= LIMIT (quick 20, thorough 24) EVERY pair of "
        "consecutive subintervals (i, i+1) must map to face-adjacent cells (one coordinate, one cell); (b) "
        "Hypothesis-generated deep cases, N*m<=50: consecutive pairs with indices weighted to the ends, the tail "
        "and sub-cube boundaries; parent/child nesting at densities m and m+1; point pairs (x', x'') at every scale "
        "2^-k, k=0..N*m, exact dyadics, uniform or straddling a subinterval boundary of some level, arbitrary box (configured through the "
        "constructor, SetBounds, or reached through a query history as in C07), "
        "checked against ||y'-y''|| <= 2*sqrt(N+3)*|x'-x''|^(1/N)*(largest side). Non-trivial: a pair whose points "
        "are closer than one level-j subinterval but lie in different level-j subintervals for some j>=2 (where a "
        "wrong orientation shows), or a consecutive pair with i+1 divisible by 2^N. Exhaustive pairs are counted.")
ASSUMPTIONS = [
    "x values exact dyadic rationals n/2^53; cell indices read in the unit cube where centres are exact",
    "Hoelder inequality checked with factor (1+1e-12) plus 8*sqrt(N)*ulp(max|bound|) for the affine map's rounding",
    "only pairs with |x'-x''| >= 2^(-N*m) (the statement's side condition)",
]
EXHAUSTIVE_SCOPE = {"quick": "all consecutive pairs of all (N,m) with N*m <= 20, N=2..5 (incl. N=2, m=10)",
                    "thorough": "all consecutive pairs of all (N,m) with N*m <= 24, N=2..5"}
NONTRIVIAL_FLOOR = {"quick": 1000, "thorough": 10000}
LIMIT = {"quick": 20, "thorough": 24}
WATCHDOG_S = {"quick": 1500, "thorough": 4 * 3600}


# thorough tier: coverage-guided (atheris) drive of the same generator and oracle: kind -> (shards, cases per shard)
FUZZ = {"generated": (16, 20000)}


def plan(tier):
    return [("exhaustive", 16, 0), ("generated", 16, (30000 if tier == "quick" else 600000) // 16)]


def adjacent(a, b):
    diff = [abs(p - q) for p, q in zip(a, b)]
    return sum(diff) == 1 and max(diff) == 1


def exhaustive(ctx):
    ctx.exhaustive = True
    limit = LIMIT[ctx.tier]
    for n in (2, 3, 4, 5):
        for m in range(1, limit // n + 1):
            nm = n * m
            T = 1 << nm
            ev = make(n, m)
            lo_i = ctx.shard * T // ctx.nshards
            hi_i = (ctx.shard + 1) * T // ctx.nshards
            if hi_i <= lo_i:
                continue
            prev = None
            for i in range(lo_i, min(hi_i + 1, T)):
                c = evo.cells_unit(ev.GetImage(evo.x_of(evo.num_first(i, nm))), m)
                if c is None:
                    ctx.violation({"n": n, "m": m, "i": i}, "image of subinterval %d is not a cell centre "
                                  "(N=%d, m=%d)" % (i, n, m), "pair")
                    return
                if prev is not None and not adjacent(prev, c):
                    ctx.violation({"n": n, "m": m, "i": i - 1},
                                  "subintervals %d and %d map to cells %r and %r which are not face-adjacent "
                                  "(N=%d, m=%d)" % (i - 1, i, prev, c, n, m), "pair")
                    return
                prev = c
            cnt = min(hi_i + 1, T) - lo_i - 1
            ctx.count(cnt, ["adjacent N=%d" % n], nontrivial=(cnt >> n) if m >= 2 else 0)
            if ctx.shard == 0 and m == 3:
                ctx.record({"n": n, "m": m, "pairs": "i=%d..%d" % (lo_i, hi_i)}, False, [])


@st.composite
def cases(draw):
    n, m = draw(evo.nm_pairs())
    nm = n * m
    kind = draw(st.sampled_from(["consecutive", "nesting", "pair", "pair", "straddle", "straddle"]))
    case = {"n": n, "m": m, "kind": kind, "via": draw(vias)}
    if kind in ("consecutive", "nesting"):
        case["i"] = draw(evo.indices(nm))
        return case
    lo, hi = draw(evo.evo_boxes(n, min(m, 14)))
    case["lower"], case["upper"] = lo, hi
    full = 1 << evo.P
    min_gap = 1 << (evo.P - nm)
    if kind == "pair":
        k = draw(st.integers(0, nm))                       # scale 2^-k
        gap = max(min_gap, draw(st.integers(1 << (evo.P - k - 1 if k < evo.P else 0), 1 << (evo.P - k))))
        gap = min(gap, full)
        a = draw(st.integers(0, full - gap))
        case["a"], case["b"] = a, a + gap
    else:
        j = draw(st.integers(1, m))                        # boundary of a level-j subinterval
        step = 1 << (evo.P - n * j)
        bnd = draw(st.integers(1, (1 << (n * j)) - 1)) * step
        # both points within one level-j subinterval length of the boundary, on different sides
        d1 = draw(st.one_of(st.just(1), st.integers(1, step)))
        d2 = draw(st.one_of(st.just(0), st.integers(0, step - 1)))
        if d1 + d2 >= step:
            d2 = max(0, step - 1 - d1)
        a, b = bnd - d1, bnd + d2
        if b - a < min_gap:
            b = min(full, a + min_gap)
        case["a"], case["b"] = a, b
    return case


def straddle_level(a, b, n, m):
    """largest j>=1 with |b-a| <= one level-j subinterval and different level-j subintervals, else 0."""
    best = 0
    for j in range(1, m + 1):
        sh = evo.P - n * j
        if (b - a) <= (1 << sh) and (a >> sh) != (min(b, (1 << evo.P) - 1) >> sh):
            best = j
    return best


def body(case):
    n, m = case["n"], case["m"]
    nm = n * m
    T = 1 << nm
    via = case.get("via", "ctor")
    classes = ["N=%d" % n, "kind=" + case["kind"], "Nm>=20" if nm >= 20 else "Nm<20", "via=" + via]
    if case["kind"] == "consecutive":
        i = min(case["i"], T - 2)
        if i < 0:
            return False, classes
        ev = make(n, m, None, None, via)
        a = evo.cells_unit(ev.GetImage(evo.x_of(evo.num_last(i, nm))), m)
        b = evo.cells_unit(ev.GetImage(evo.x_of(evo.num_first(i + 1, nm))), m)
        if a is None or b is None:
            fail("N=%d, m=%d: image of subinterval %d or %d is not a cell centre" % (n, m, i, i + 1))
        if not adjacent(a, b):
            fail("subintervals %d and %d map to cells %r and %r which are not face-adjacent (N=%d, m=%d)" %
                 (i, i + 1, a, b, n, m))
        nt = ((i + 1) % (1 << n)) == 0
        classes.append("crosses-parent-boundary" if nt else "same-parent")
        return nt, classes
    if case["kind"] == "nesting":
        if n * (m + 1) > 50:
            return False, classes
        msg = check_children(make(n, m, None, None, via), make(n, m + 1, None, None, via), n, m, case["i"])
        if msg:
            fail(msg)
        return False, classes
    lo, hi = case["lower"], case["upper"]
    a, b = case["a"], case["b"]
    xa, xb = evo.x_of(a), evo.x_of(b)
    if xb - xa < 2.0 ** -nm:
        raise RuntimeError("harness: pair closer than 2^-Nm")
    ev = make(n, m, lo, hi, via)
    ya, yb = ev.GetImage(xa), ev.GetImage(xb)
    dist = math.sqrt(sum((float(p) - float(q)) ** 2 for p, q in zip(ya, yb)))
    side = max(h - l for l, h in zip(lo, hi))
    bound = 2.0 * math.sqrt(n + 3.0) * (xb - xa) ** (1.0 / n) * side
    slack = 8.0 * math.sqrt(n) * max(math.ulp(max(abs(l), abs(h))) for l, h in zip(lo, hi))
    if dist > bound * (1 + 1e-12) + slack:
        fail("N=%d, m=%d, box [%r, %r]: ||y(%r)-y(%r)|| = %r exceeds 2*sqrt(N+3)*|dx|^(1/N)*side = %r" %
             (n, m, lo, hi, xa, xb, dist, bound))
    j = straddle_level(a, b, n, m)
    classes.append("straddles-level-%s" % (j if j < 4 else "4+"))
    ratio = dist / bound if bound > 0 else 0
    classes.append("ratio>=0.4" if ratio >= 0.4 else ("ratio>=0.1" if ratio >= 0.1 else "ratio<0.1"))
    return j >= 2, classes


def generated(ctx):
    hyp_run(ctx, cases(), body, ctx.budget)


SUBCHECKS = {"exhaustive": exhaustive, "generated": generated}


def replay(kind, case):
    if kind == "pair":
        n, m, i = case["n"], case["m"], case["i"]
        body({"n": n, "m": m, "kind": "consecutive", "i": i})
    else:
        body(case)
