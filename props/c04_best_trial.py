"""C04 - the reported optimum is the best trial actually evaluated, at every moment."""
from hypothesis import strategies as st

from vlib import gen, painters
from vlib.agp import Run, best_of
from vlib.runner import fail, hyp_run
from vlib.searchinv import check_reported_best

LEVEL = "exploration"
RULE = ("Hypothesis-generated (objective incl. many-equal-values families, N=1..5, box, r, eps, itersLimit<=300, "
        "refineSolution in {False,True}) driven by mixed DoGlobalIteration(k)/Solve calls with a recording "
        "listener; at every observation point (inside OnEndIteration, inside OnMethodStop, after each call, on the "
        "returned Solution and on GetResults(); with or without a listener, a kept Solution object re-read after every "
        "later call, a second solver (possibly on the same SolverParameters object, possibly the next problem of a "
        "series) stepped in between, DoLocalRefinement in the middle of the run, startPoint set in a fifth of the cases, "
        "a shipped static painter attached in one case of sixteen - its objective probes are dropped from the log) "
        "the reported best must be an evaluated point with its logged and "
        "re-evaluated value and no evaluated value may be smaller. Non-trivial: the best value changed at least "
        "twice after the first trial. Distinct = distinct case digest.")
ASSUMPTIONS = [
    "observations inside callbacks are snapshots (copy of point and value, length of the evaluation log at that "
    "moment) verified after the call returns, because Solve swallows exceptions raised inside callbacks",
    "among equal minimal values any one may be reported",
    "with refineSolution=True the evaluations of the local phase count as evaluated trials",
]
NONTRIVIAL_FLOOR = {"quick": 150, "thorough": 1500}


# thorough tier: coverage-guided (atheris) drive of the same generator and oracle: kind -> (shards, cases per shard)
FUZZ = {"generated": (8, 1500)}


def plan(tier):
    total = 2000 if tier == "quick" else 40000
    return [("generated", 16, total // 16)]


@st.composite
def cases(draw):
    recipe = draw(gen.problem_recipe(densities=(10, 10, 6, 12), styles=True, offsets=True))
    if recipe["n"] == 1 and draw(st.integers(0, 3)) == 0:
        # "every box": a thin 1-D box (width 1e-3..1e-9, at most 1e3 widths away from the origin), e.g. a length in
        # metres on [0, 5e-9]; distinct trial points then differ only beyond the 10th decimal
        w = float(10.0 ** -draw(st.integers(3, 9))) * draw(st.integers(1, 9))
        c = draw(st.integers(-1000, 1000)) * w / 2
        recipe = dict(recipe, lower=[c - w / 2], upper=[c + w / 2])
    iters = st.one_of(st.sampled_from([1, 2, 3, 30, 100, 300]), st.integers(5, 300), st.integers(20, 300))
    params = draw(gen.solver_params(recipe["n"], recipe["density"], iters, cheap=False))
    total = draw(st.one_of(st.integers(0, 4), st.integers(5, min(max(5, params["itersLimit"]), 120)),
                           st.integers(5, min(max(5, params["itersLimit"]), 120))))
    ops = draw(gen.compositions(total)) if total else []
    if draw(st.integers(0, 3)) > 0 or not ops:
        ops = ops + ["solve"]
        if draw(st.integers(0, 4)) == 0:
            ops = ops + ["solve"]
    if ops and draw(st.integers(0, 2)) == 0:
        # a local refinement in the middle of the run (Solver.DoLocalRefinement, or a refining Solve followed by more
        # global iterations): the reported optimum must not get worse when the search goes on
        ops = list(ops)
        ops.insert(draw(st.integers(1, len(ops))), "refine")
        if draw(st.booleans()):
            ops = ops + [draw(st.integers(1, 30))]
    case = {"recipe": recipe, "params": params, "ops": ops, "refine": draw(st.booleans())}
    # with or without a listener attached (a listener makes the solver refresh its Solution at every notification)
    case["listener"] = draw(st.sampled_from([True, True, False]))
    # "at every moment": the Solution object obtained after the first call is kept and read again, as it is, after
    # every later call
    case["keep"] = draw(st.booleans())
    # another solver on another problem is created and stepped between the calls
    if draw(st.integers(0, 2)) == 0:
        case["decoy"] = draw(gen.problem_recipe(dims=(recipe["n"],) if draw(st.booleans()) else (1, 2, 3), styles=True))
        # the other solver may be handed the very SolverParameters object of this one (same dimension only)
        case["decoy_shares_params"] = case["decoy"]["n"] == recipe["n"] and draw(st.booleans())
        if case["decoy_shares_params"] and draw(st.booleans()):
            # the next problem of a series: the same objective with its minimiser moved a little (a new problem
            # object), solved with the same parameters object
            obj = dict(recipe["obj"])
            if isinstance(obj.get("p"), list) and obj["p"] and not isinstance(obj["p"][0], list):
                d = draw(st.sampled_from([1e-3, 3e-3, 1e-2]))
                obj["p"] = [min(1.0, max(0.0, v + d * (1 if i % 2 else -1))) for i, v in enumerate(obj["p"])]
            case["decoy"] = dict(recipe, obj=obj)
    sp = draw(gen.start_points(recipe))
    if sp is not None:
        case["params"] = dict(params, startPoint=sp)
        obj = dict(recipe["obj"])
        if draw(st.booleans()) and isinstance(obj.get("p"), list) and obj["p"] and not isinstance(obj["p"][0], list):
            # a series of similar problems solved with ONE parameters object that carries the start point and asks
            # for refinement: the next problem has its minimiser moved a little
            d = draw(st.sampled_from([1e-3, 3e-3, 1e-2]))
            obj["p"] = [min(1.0, max(0.0, v + d * (1 if i % 2 else -1))) for i, v in enumerate(obj["p"])]
            case["decoy"] = dict(recipe, obj=obj)
            case["decoy_shares_params"] = True
            case["refine"] = True
            if case["ops"][-1] != "solve":
                case["ops"] = list(case["ops"]) + ["solve"]
    if draw(st.integers(0, 15)) == 7 and "refine" not in case["ops"]:
        # a shipped painter is attached as well (it draws, and probes the objective, when the method stops)
        case["painter"] = draw(painters.static_painter_specs(recipe["n"]))
        if case["ops"][-1] != "solve":
            case["ops"] = list(case["ops"]) + ["solve"]
    return case


def body(case):
    listener = case.get("listener", True)
    run = Run(case["recipe"], case["params"], refine=case["refine"], record=listener)
    prob = run.problem
    obs = []

    def snap(where, sol):
        pt, val = best_of(sol)
        obs.append((where, pt, val, len(prob.log)))

    def hook(kind, payload):
        if kind == "iter":
            snap("inside OnEndIteration", payload[1])
        elif kind == "stop":
            snap("inside OnMethodStop", payload[1])

    if listener:
        run.rec.hook = hook
    cleanup = painters.attach(run, case["painter"]) if case.get("painter") else None
    try:
        return _drive(case, run, prob, obs, snap, listener)
    finally:
        if cleanup:
            cleanup()


def _drive(case, run, prob, obs, snap, listener):
    kept = None
    decoy = None
    nops = 0
    stopped = False
    for op in case["ops"]:
        try:
            if op == "solve":
                sol = run.solve()
                snap("returned by Solve", sol)
            elif op == "refine":
                if not prob.log:
                    continue
                import contextlib
                with contextlib.redirect_stdout(run.out):
                    run.solver.DoLocalRefinement(10)
            else:
                run.step(op)
        except Exception as e:
            if "outside of interval" in str(e):
                # the method refused an interval it can no longer subdivide: nothing was evaluated for it, and what
                # the solver reports now is judged like after any other call
                stopped = True
                snap("GetResults() after call %d (%r) ended at the float resolution" % (nops + 1, op), run.results())
                break
            raise
        nops += 1
        if case.get("decoy") is not None:
            if decoy is None:
                if case.get("decoy_shares_params"):
                    decoy = Run(case["decoy"], case["params"], record=False, refine=case["refine"], sp_obj=run.sp)
                else:
                    decoy = Run(case["decoy"], {"r": 2.5, "eps": 1e-3, "itersLimit": 50}, record=False)
            try:
                if case.get("decoy_shares_params") and nops == len(case["ops"]):
                    decoy.solve()         # (with refinement, if this run refines)
                else:
                    decoy.step(1)
            except Exception as e:
                if "outside of interval" not in str(e):
                    raise
        if kept is not None:
            snap("the Solution object obtained after call 1, read again after call %d (%r)" % (nops, op), kept)
        snap("GetResults() after call %d (%r)" % (nops, op), run.results())
        if kept is None and case.get("keep"):
            kept = run.results()
    for where, pt, val, nlog in obs:
        check_reported_best(pt, val, prob.log[:nlog], prob, who=where + ": ")
    # how often did the best value change?
    changes, cur = 0, None
    for _, _, v in prob.log:
        if cur is None or v < cur:
            changes += (cur is not None)
            cur = v
    vals = [v for _, _, v in prob.log]
    equal_min = sum(1 for v in vals if v == min(vals))
    classes = ["N=%d" % run.n, "refine=%s" % case["refine"], "listener=%s" % listener,
               "refined-mid-run" if "refine" in case["ops"] else "no-mid-run-refinement",
               "kept-solution" if kept is not None else "no-kept-solution", "decoy" if decoy is not None else "no-decoy",
               "painter=" + (case["painter"]["kind"] if case.get("painter") else "none"), "observations=%d+" % min(len(obs), 6) if len(obs) >= 6
               else "observations<6"]
    if equal_min > 1:
        classes.append("several-equal-minima")
    classes.append("best-changes>=2" if changes >= 2 else "best-changes<2")
    if stopped:
        classes.append("float-resolution-stop")
    return changes >= 2, classes, {"case": case, "evaluations": len(vals), "observations": len(obs),
                                   "best_changes": changes}


def generated(ctx):
    hyp_run(ctx, cases(), body, ctx.budget)


SUBCHECKS = {"generated": generated}


def replay(kind, case):
    body(case)
