"""C17 - evolvent queries are pure."""
import numpy as np
from hypothesis import strategies as st
from hypothesis.stateful import RuleBasedStateMachine, rule, precondition, initialize

from vlib import evo
from vlib.runner import fail, machine_run, MachineMixin

LEVEL = "exploration"
RULE = ("Hypothesis RuleBasedStateMachine over ONE Evolvent object (N in 1..5, density m with N*m<=50, generated "
        "box): rules image(x), inverse(y), preimages(y), set_bounds(lower, upper), shift_bounds (new bounds computed from the "
        "object's own bound arrays, one of them handed back as it is), nudge_bounds (a bound moved in its 6th..16th significant digit); integer-valued constructor bounds are written as "
        "Python ints in half of the cases; x from the C07 generators and from "
        "previously used arguments, y uniform in the box / on faces / integer-valued, supplied as float ndarray, float "
        "list or int list. Oracle after every rule: the result is bit-equal to that of a brand-new Evolvent with the "
        "current bounds and density; the argument is unchanged (values, type and dtype); every array returned by an "
        "earlier query still equals the copy taken when it was returned. Non-trivial: a sequence with an "
        "inverse/preimages call immediately followed by an image call, or a set_bounds between two queries of the "
        "same argument. Distinct = distinct rule sequence.")
ASSUMPTIONS = [
    "the oracle is a fresh instance of the same class (differential): it decides history independence and "
    "aliasing, not correctness of the map (C07-C09 do)",
]
NONTRIVIAL_FLOOR = {"quick": 300, "thorough": 3000}


# thorough tier: coverage-guided (atheris) drive of the same generator and oracle: kind -> (shards, cases per shard)
FUZZ = {"machine": (16, 3000)}


def plan(tier):
    return [("machine", 16, (1600 if tier == "quick" else 32000) // 16)]


unit = st.one_of(st.sampled_from([0.0, 1.0, 0.5]), st.floats(0.0, 1.0, allow_nan=False))


@st.composite
def bounds(draw, n):
    kind = draw(st.sampled_from(["unit", "int", "general"]))
    lo, hi = [], []
    for _ in range(n):
        if kind == "unit":
            lo.append(0.0), hi.append(1.0)
        elif kind == "int":
            a = float(draw(st.integers(-5, 3)))
            lo.append(a), hi.append(a + float(draw(st.integers(1, 8))))
        else:
            w = draw(st.floats(-2, 2).map(lambda e: float(10.0 ** e)))
            c = draw(st.floats(-10.0, 10.0))
            lo.append(float(c - w / 2)), hi.append(float(c + w / 2))
    return lo, hi


class EvolventMachine(MachineMixin, RuleBasedStateMachine):
    def __init__(self):
        super().__init__()
        self.enter()
        self.ev = None
        self.returned = []     # (array object, copy at return time)
        self.xs = []
        self.ys = []
        self.last = None
        self.queried = {}      # argument key -> set_bounds count at last query

    def fresh(self):
        from iOpt.evolvent.evolvent import Evolvent
        return Evolvent(list(self.lo), list(self.hi), self.n, self.m)

    @initialize(n=st.sampled_from([1, 2, 2, 3, 4, 5]), data=st.data())
    def setup(self, n, data):
        m = data.draw(st.one_of(st.just(10), st.integers(1, 50 // n)))
        lo, hi = data.draw(bounds(n))
        self.trace.append(["setup", n, m, lo, hi])
        self.step(self._setup, n, m, lo, hi)

    def _setup(self, n, m, lo, hi):
        from iOpt.evolvent.evolvent import Evolvent
        self.n, self.m, self.lo, self.hi = n, m, list(lo), list(hi)
        if all(float(v).is_integer() for v in list(lo) + list(hi)) and (n + m) % 2:
            # integer-valued bounds written as Python ints (as the repository's own tests do)
            self.ev = Evolvent([int(v) for v in lo], [int(v) for v in hi], n, m)
            self.cls.add("int-typed-constructor-bounds")
        else:
            a, b = np.array(lo, dtype=np.double), np.array(hi, dtype=np.double)
            self.ev = Evolvent(a, b, n, m)
            # the evolvent must have copied the bounds: the caller goes on using its arrays for something else
            a -= 3.0
            b *= 0.0
        self.nbounds = 0
        self.cls.add("N=%d" % n)

    def check_returned(self, who):
        for arr, cp in self.returned:
            if arr.dtype != cp.dtype or not np.array_equal(arr, cp):
                fail(who + "an array returned by an earlier query changed from %r to %r" % (cp.tolist(), arr.tolist()))

    @precondition(lambda self: self.ev is not None)
    @rule(kind=st.sampled_from(["dyadic", "float", "reuse", "one", "zero"]), num=st.integers(0, (1 << 53) - 1),
          f=unit, pick=st.integers(0, 10 ** 6))
    def image(self, kind, num, f, pick):
        if kind == "dyadic":
            x = evo.x_of(num)
        elif kind == "float":
            x = f
        elif kind == "one":
            x = 1.0
        elif kind == "zero":
            x = 0.0
        else:
            x = self.xs[pick % len(self.xs)] if self.xs else f
        self.trace.append(["image", x])
        self.step(self._image, x)

    def _image(self, x):
        who = "GetImage(%r) [N=%d, m=%d, bounds %r..%r]: " % (x, self.n, self.m, self.lo, self.hi)
        if (len(self.xs) + len(self.ys)) % 4 == 3:
            # the abscissa handed over as a 0-d array (what indexing an array with [()] or np.asarray(x) gives)
            arg = np.array(x, dtype=np.double)
            y = self.ev.GetImage(arg)
            if arg.shape != () or float(arg) != float(x):
                fail(who + "the argument, a 0-d array, was modified: %r -> %r" % (x, arg.tolist()))
            self.cls.add("x-as-0d-array")
        else:
            y = self.ev.GetImage(x)
        want = self.fresh().GetImage(x)
        if not isinstance(y, np.ndarray) or y.dtype != want.dtype or not np.array_equal(y, want):
            fail(who + "returned %r, a brand-new Evolvent returns %r (previous call: %r)" %
                 (np.asarray(y).tolist(), want.tolist(), self.last))
        self.check_returned(who)
        self.returned.append((y, y.copy()))
        self.returned = self.returned[-12:]
        self.xs.append(x)
        self.ys.append([float(v) for v in y])
        if self.last in ("inverse", "preimages"):
            self.nontrivial = True
            self.cls.add("image-right-after-inverse")
        self.note_query(("x", x))
        self.last = "image"

    def note_query(self, key):
        if key in self.queried and self.queried[key] < self.nbounds:
            self.nontrivial = True
            self.cls.add("set_bounds-between-equal-queries")
        self.queried[key] = self.nbounds

    @precondition(lambda self: self.ev is not None)
    @rule(which=st.sampled_from(["inverse", "preimages"]), form=st.sampled_from(["array", "list", "intlist"]),
          kind=st.sampled_from(["uniform", "face", "reuse"]), u=st.lists(unit, min_size=5, max_size=5),
          pick=st.integers(0, 10 ** 6))
    def inverse(self, which, form, kind, u, pick):
        lo, hi = self.lo, self.hi
        if kind == "reuse" and self.ys:
            y = list(self.ys[pick % len(self.ys)])
            y = [min(max(v, a), b) for v, a, b in zip(y, lo, hi)]
        elif kind == "face":
            y = [a if t < 0.34 else (b if t > 0.66 else a + t * (b - a)) for a, b, t in zip(lo, hi, u)]
        else:
            y = [a + t * (b - a) for a, b, t in zip(lo, hi, u)]
        if form == "intlist":
            y = [int(min(max(round(v), np.ceil(a)), np.floor(b))) if np.ceil(a) <= np.floor(b) else v
                 for v, a, b in zip(y, lo, hi)]
            if not all(isinstance(v, int) for v in y):
                form = "list"
                y = [float(v) for v in y]
        self.trace.append(["inverse", which, form, y])
        self.step(self._inverse, which, form, y)

    def _inverse(self, which, form, y):
        who = "%s(%r as %s) [N=%d, m=%d, bounds %r..%r]: " % (
            "GetInverseImage" if which == "inverse" else "GetPreimages", y, form, self.n, self.m, self.lo, self.hi)
        arg = np.array(y, dtype=np.double) if form == "array" else list(y)
        before = arg.copy() if form == "array" else list(arg)
        fn = self.ev.GetInverseImage if which == "inverse" else self.ev.GetPreimages
        x = fn(arg)
        fr = self.fresh()
        want = (fr.GetInverseImage if which == "inverse" else fr.GetPreimages)(
            np.array(y, dtype=np.double) if form == "array" else list(y))
        if float(x) != float(want):
            fail(who + "returned %r, a brand-new Evolvent returns %r (previous call: %r)" % (x, want, self.last))
        if form == "array":
            if arg.dtype != before.dtype or not np.array_equal(arg, before):
                fail(who + "the argument array was modified: %r -> %r" % (before.tolist(), arg.tolist()))
        else:
            if arg != before or [type(v) for v in arg] != [type(v) for v in before]:
                fail(who + "the argument list was modified: %r -> %r" % (before, arg))
        self.check_returned(who)
        self.xs.append(float(x))
        self.note_query(("y", tuple(y)))
        self.last = which
        self.cls.add("form=" + form)

    @precondition(lambda self: self.ev is not None)
    @rule(data=st.data(), as_array=st.booleans())
    def set_bounds(self, data, as_array):
        lo, hi = data.draw(bounds(self.n))
        self.trace.append(["set_bounds", lo, hi, as_array])
        self.step(self._set_bounds, lo, hi, as_array)

    def _set_bounds(self, lo, hi, as_array):
        a = np.array(lo, dtype=np.double) if as_array else list(lo)
        b = np.array(hi, dtype=np.double) if as_array else list(hi)
        self.ev.SetBounds(a, b)
        if as_array:
            # the evolvent must have copied the bounds: later changes of the caller's arrays are invisible
            a += 1.0
            b += 1.0
        self.lo, self.hi = list(lo), list(hi)
        self.nbounds += 1
        self.check_returned("SetBounds: ")
        self.last = "set_bounds"

    @precondition(lambda self: self.ev is not None)
    @rule(rel=st.sampled_from([5e-6, -5e-6, 2e-7, -2e-7, 1e-9, 3e-16]), which=st.integers(0, 9), as_array=st.booleans())
    def nudge_bounds(self, rel, which, as_array):
        # a box that differs from the current one in the sixth, seventh, ... significant digit is another box
        k = which % self.n
        hi = list(self.hi)
        hi[k] = hi[k] + rel * max(abs(hi[k]), hi[k] - self.lo[k])
        if not (self.lo[k] < hi[k]) or hi[k] == self.hi[k]:
            return
        self.trace.append(["set_bounds", list(self.lo), hi, as_array])
        self.step(self._set_bounds, list(self.lo), hi, as_array)
        self.cls.add("bounds-nudged")

    @precondition(lambda self: self.ev is not None)
    @rule(shift=st.sampled_from([-1.0, 1.0]))
    def shift_bounds(self, shift):
        # new bounds computed from the object's own bound arrays, one of which is handed back as it is:
        # SetBounds(2*lower - upper, lower) moves the box down by its own size, SetBounds(upper, 2*upper - lower) up
        self.trace.append(["shift_bounds", shift])
        self.step(self._shift_bounds, shift)

    def _shift_bounds(self, shift):
        lo_arr, hi_arr = self.ev.lowerBoundOfFloatVariables, self.ev.upperBoundOfFloatVariables
        lo = [2.0 * a - b for a, b in zip(self.lo, self.hi)] if shift < 0 else list(self.hi)
        hi = list(self.lo) if shift < 0 else [2.0 * b - a for a, b in zip(self.lo, self.hi)]
        if any(not (a < b) for a, b in zip(lo, hi)) or max(abs(v) for v in lo + hi) > 1e6:
            return
        if shift < 0:
            self.ev.SetBounds(2.0 * np.asarray(lo_arr, dtype=np.double) - np.asarray(hi_arr, dtype=np.double), lo_arr)
        else:
            self.ev.SetBounds(hi_arr, 2.0 * np.asarray(hi_arr, dtype=np.double) - np.asarray(lo_arr, dtype=np.double))
        self.lo, self.hi = lo, hi
        self.nbounds += 1
        self.cls.add("bounds-from-own-arrays")
        self.check_returned("SetBounds (from the object's own arrays): ")
        self.last = "set_bounds"

    @precondition(lambda self: self.ev is not None)
    @rule(data=st.data(), bad=st.sampled_from(["inf", "nan", "longer"]))
    def unusable_bounds(self, data, bad):
        lo, _ = data.draw(bounds(self.n))
        self.trace.append(["unusable_bounds", lo, bad])
        self.step(self._unusable_bounds, lo, bad)

    def _unusable_bounds(self, lo, bad):
        """SetBounds with a usable lower and an unusable upper argument.  If the object rejects the call it must be
        exactly as before (the model keeps the old box); if it takes the values as they are (the pinned code does not
        validate), the caller puts the previous box back."""
        hi = {"inf": [float("inf")] * self.n, "nan": [float("nan")] * self.n,
              "longer": [v + 1.0 for v in lo] + [0.0]}[bad]
        try:
            self.ev.SetBounds(list(lo), hi)
        except (ValueError, TypeError, IndexError):
            self.cls.add("set_bounds-rejected")
            self.nontrivial = True
            self.last = "set_bounds (rejected)"
            return
        self.ev.SetBounds(list(self.lo), list(self.hi))
        self.nbounds += 1
        self.cls.add("unusable-bounds-accepted-then-restored")
        self.last = "set_bounds"

    def teardown(self):
        self.finish()


def machine(ctx):
    machine_run(ctx, EvolventMachine, ctx.budget, steps=25)


SUBCHECKS = {"machine": machine}


def replay(kind, case):
    EvolventMachine._st = {"best": None, "after": 0}
    EvolventMachine._ctx = None
    m = EvolventMachine()
    for s in case["steps"]:
        getattr(m, "_" + s[0])(*s[1:])
