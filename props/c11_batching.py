"""C11 - determinism and independence from how iterations are batched."""
from hypothesis import strategies as st

from vlib import gen
from vlib.agp import Run, best_of, swallowed_exception_is_float_resolution
from vlib.runner import fail, hyp_run

LEVEL = "exploration"
RULE_EXTRA = (" A third of the generated cases also call DoLocalRefinement(3) after one of the batches (the global "
              "trials before and after it must still be the reference prefix) and/or repeat a 25-trial run with the solver's "
              "default parameters, the second time with its iterations alternating with those of another default-parameter "
              "solver of dimension 1..7.")
RULE = ("Differential, real solver against real solver. Reference = one solver driven by a single "
        "DoGlobalIteration(K); n* = stopping index of a plain Solve(). (a) exhaustive: for Hypothesis-drawn "
        "problems with itersLimit<=10 EVERY composition of every total 1..10 into DoGlobalIteration batches, "
        "followed by Solve, is executed (1023 call patterns per problem); (b) generated: longer runs (up to 200 "
        "iterations) with generated compositions whose total lies below or above n*, Solve possibly called twice, "
        "the whole recipe repeated. Problems: generated objectives (N=1..5) and shipped benchmarks (Hill, Shekel, "
        "Rastrigin, XSquared, GKLS). Non-trivial: at least two batches of different sizes; both totals below and "
        "above n* are reported in the class histogram. Distinct = distinct (problem, parameters, composition).")
RULE = RULE + RULE_EXTRA
ASSUMPTIONS = [
    "equality is bit for bit on evaluation points and values, on the best trial, trial count and accuracy",
    "a batch that overshoots into float-resolution exhaustion (the method's own 'x is outside of interval' error) "
    "is skipped and counted",
    "the oracle is the implementation under another call pattern: it decides batching independence and "
    "determinism, not correctness of the sequence (C02 does)",
]
EXHAUSTIVE_SCOPE = {"quick": "all compositions of totals 1..10 for each drawn problem",
                    "thorough": "all compositions of totals 1..10 for each drawn problem"}
NONTRIVIAL_FLOOR = {"quick": 500, "thorough": 5000}


# thorough tier: coverage-guided (atheris) drive of the same generator and oracle: kind -> (shards, cases per shard)
FUZZ = {"generated": (8, 600)}


def plan(tier):
    return [("exhaustive", 16, 2 if tier == "quick" else 20), ("generated", 16, (1200 if tier == "quick" else 24000) // 16)]


def seq(run):
    return [(y, v) for _, y, v in run.problem.log]


def summary(sol):
    return (best_of(sol), sol.numberOfGlobalTrials, float(sol.solutionAccuracy))


def reference(recipe, params, K):
    """(T, n*, final summary of a plain Solve) or None if the reference itself hits float resolution."""
    plain = Run(recipe, params, record=True)
    sol = plain.solve()
    if "Exception was thrown" in plain.stdout():
        if not swallowed_exception_is_float_resolution(plain):
            fail("a plain Solve() swallowed an internal exception after %d trials" % len(plain.problem.log))
        # (a solver that ended this way is not "finished" in the sense of the statement - neither eps nor the budget
        # is reached - so nothing is asserted about a further Solve: with tied characteristics it may well go on)
        return None
    nstar = len(plain.problem.log)
    K = max(K, nstar)
    ref = Run(recipe, params, record=False)
    try:
        ref.step(K)
    except Exception as e:
        if "outside of interval" in str(e):
            single_steps_also_fail(recipe, params, K, [K])
            return None
        raise
    T = seq(ref)
    if len(T) != K:
        fail("DoGlobalIteration(%d) performed %d trials" % (K, len(T)))
    if T[:nstar] != seq(plain):
        fail("a plain Solve() evaluates %r... but one DoGlobalIteration(%d) evaluates %r..." %
             (first_diff(seq(plain), T), K, first_diff(T, seq(plain))))
    return T, nstar, summary(sol)


def single_steps_also_fail(recipe, params, total, batches):
    """Float-resolution exhaustion must not depend on the batching: single steps must hit it too."""
    run = Run(recipe, params, record=False)
    try:
        for _ in range(total):
            run.step(1)
    except Exception as e:
        if "outside of interval" in str(e):
            return
        raise
    fail("DoGlobalIteration batches %r raise the method's 'x is outside of interval' error but %d single "
         "iterations of the same run do not" % (batches, total))


def default_repetition(recipe, decoy_recipe, K=25):
    """The same problem run twice with the solver's default parameters (first K trials), while another solver
    with default parameters is created and stepped in between: the sequence is a function of the problem and r."""
    def run_once():
        r = Run(recipe, None, record=False, default_params=True)
        try:
            r.step(K)
        except Exception as e:
            if "outside of interval" not in str(e):
                raise
        return seq(r)
    a = run_once()
    d = Run(decoy_recipe, None, record=False, default_params=True)

    def step_decoy(k):
        try:
            d.step(k)
        except Exception as e:
            if "outside of interval" not in str(e):
                raise

    step_decoy(3)
    # second run: its iterations alternate with iterations of the other solver
    r2 = Run(recipe, None, record=False, default_params=True)
    try:
        done = 0
        for k in (1, 1, 2, 3, 5, 13):
            r2.step(k)
            done += k
            step_decoy(1)
    except Exception as e:
        if "outside of interval" not in str(e):
            raise
    b = seq(r2)
    if a != b:
        fail("the same problem run twice with default parameters gives different trial sequences (%s) when a "
             "%d-dimensional solver with default parameters is created and stepped in between" %
             (first_diff(a, b), decoy_recipe["n"]))


def first_diff(a, b):
    for k, (p, q) in enumerate(zip(a, b)):
        if p != q:
            return "trial %d: %r" % (k + 1, p)
    return "length %d" % len(a)


def check_pattern(recipe, params, batches, T, nstar, plain_summary, twice=False):
    run = Run(recipe, params, record=False)
    try:
        for k in batches:
            run.step(k)
    except Exception as e:
        if "outside of interval" in str(e):
            single_steps_also_fail(recipe, params, sum(batches), batches)
            return "skip"
        raise
    if len(run.problem.log) != sum(batches):
        fail("DoGlobalIteration batches %r performed %d trials instead of %d" % (batches, len(run.problem.log),
                                                                                sum(batches)))
    sol = run.solve()
    want = T[:max(sum(batches), nstar)]
    got = seq(run)
    if got != want:
        fail("batches %r + Solve: %d trials, reference prefix has %d; first difference at %s" %
             (batches, len(got), len(want), first_diff(got, want)))
    if sol.numberOfGlobalTrials != len(want):
        fail("batches %r + Solve: numberOfGlobalTrials=%r for %d evaluations" % (batches, sol.numberOfGlobalTrials,
                                                                               len(want)))
    if sum(batches) <= nstar and summary(sol) != plain_summary:
        fail("batches %r + Solve ends with %r, a plain Solve with %r" % (batches, summary(sol), plain_summary))
    if twice:
        before = summary(sol)
        sol2 = run.solve()
        if seq(run) != want:
            fail("a second Solve() performed %d further global trials" % (len(seq(run)) - len(want)))
        if summary(sol2) != before:
            fail("a second Solve() changed the result from %r to %r" % (before, summary(sol2)))
    return "ok"


def refine_pattern(recipe, params, batches, where, T, nstar):
    """A local refinement (Solver.DoLocalRefinement) between the batches: the trial sequence is a function of the
    problem and r, so the GLOBAL trials before and after it must still be the reference prefix (the refinement's
    own evaluations are recognised by their position in the log; the refined result itself is C05's subject)."""
    import contextlib
    run = Run(recipe, params, record=False)
    local = []
    try:
        for j, k in enumerate(batches):
            run.step(k)
            if j == where:
                a = len(run.problem.log)
                with contextlib.redirect_stdout(run.out):
                    run.solver.DoLocalRefinement(3)
                local.append((a, len(run.problem.log)))
        run.solve()
    except Exception as e:
        if "outside of interval" in str(e):
            return "skip"
        raise
    got = [(y, v) for i, (_, y, v) in enumerate(run.problem.log) if not any(a <= i < b for a, b in local)]
    want = T[:max(sum(batches), nstar)]
    if got != want:
        fail("batches %r with DoLocalRefinement after batch %d, then Solve: %d global trials, reference prefix has "
             "%d; first difference at %s" % (batches, where + 1, len(got), len(want), first_diff(got, want)))
    return "ok"


def all_compositions(total):
    if total == 0:
        yield []
        return
    for first in range(1, total + 1):
        for rest in all_compositions(total - first):
            yield [first] + rest


@st.composite
def small_problem(draw):
    if draw(st.integers(0, 3)) == 0:
        recipe = draw(gen.shipped_recipe())
        n = 2
    else:
        recipe = draw(gen.problem_recipe())
        n = recipe["n"]
    params = {"r": draw(gen.r_values), "eps": draw(gen.eps_values(max(1, min(n, 5)), 10, cheap=False, upto=0.05)),
              "itersLimit": draw(st.sampled_from([3, 4, 5, 6, 8, 10, 10]))}
    if draw(st.integers(0, 5)) == 0:
        params["zoom"] = True      # every run of the case is re-targeted to the same sub-box before its first iteration
    return {"recipe": recipe, "params": params}


def exhaustive_body(case):
    recipe, params = case["recipe"], case["params"]
    ref = reference(recipe, params, 10)
    if ref is None:
        return False, ["reference-float-resolution"]
    T, nstar, ps = ref
    cnt = 0
    for total in range(1, 11):
        for comp in all_compositions(total):
            check_pattern(recipe, params, comp, T, nstar, ps, twice=(cnt % 7 == 0))
            cnt += 1
    exhaustive_body.counted += cnt
    return True, ["n*=%d" % nstar], {"case": case, "patterns": cnt, "nstar": nstar}


exhaustive_body.counted = 0


def exhaustive(ctx):
    ctx.exhaustive = True
    exhaustive_body.counted = 0
    hyp_run(ctx, small_problem(), exhaustive_body, ctx.budget)
    ctx.count(exhaustive_body.counted, ["enumerated-call-patterns"], nontrivial=exhaustive_body.counted // 2)


@st.composite
def cases(draw):
    if draw(st.integers(0, 3)) == 0:
        recipe = draw(gen.shipped_recipe())
        n = 2
    else:
        recipe = draw(gen.problem_recipe())
        n = recipe["n"]
    iters = st.one_of(st.sampled_from([1, 2, 3, 20, 50, 200]), st.integers(5, 200))
    params = draw(gen.solver_params(max(1, min(n, 5)), 10, iters, cheap=False))
    if draw(st.integers(0, 5)) == 0:
        params = dict(params, zoom=True)     # every run of the case is re-targeted to the same sub-box first
    if draw(st.integers(0, 11)) == 0:
        # the search is pushed to the float resolution of the curve coordinate (the method refuses the interval)
        recipe, params = draw(gen.resolution_case())
    total = draw(st.one_of(st.integers(1, 6), st.integers(5, 60), st.integers(20, 220)))
    case = {"recipe": recipe, "params": params, "batches": draw(gen.compositions(total, max_parts=8)),
            "twice": draw(st.booleans())}
    if draw(st.integers(0, 2)) == 0:
        case["refine_after"] = draw(st.integers(0, 7))
    if draw(st.integers(0, 2)) == 0:
        # repetition with the solver's default parameters, another solver (dimension 1..7, default parameters too)
        # being built and stepped between the two runs
        case["decoy"] = draw(gen.problem_recipe(dims=(1, 2, 3, 5, 6, 7), families=("cones", "sines", "linear")))
    return case


def body(case):
    recipe, params, batches = case["recipe"], case["params"], case["batches"]
    ref = reference(recipe, params, sum(batches))
    if ref is None:
        return False, ["reference-float-resolution"]
    T, nstar, ps = ref
    # repeating the reference run reproduces it exactly
    again = reference(recipe, params, sum(batches))
    if again is None or again[0] != T or again[1] != nstar or again[2] != ps:
        fail("repeating the same run gives a different trial sequence or result")
    if case.get("decoy") is not None:
        default_repetition(recipe, case["decoy"])
    if case.get("refine_after") is not None and "shipped" not in recipe:
        refine_pattern(recipe, params, batches, case["refine_after"] % len(batches), T, nstar)
    res = check_pattern(recipe, params, batches, T, nstar, ps, twice=case["twice"])
    if res == "skip":
        return False, ["batch-float-resolution"]
    classes = ["total<n*" if sum(batches) < nstar else ("total=n*" if sum(batches) == nstar else "total>n*"),
               "shipped" if "shipped" in recipe else "generated-objective", "twice=%s" % case["twice"]]
    return len(set(batches)) >= 2, classes, {"case": case, "nstar": nstar}


def generated(ctx):
    hyp_run(ctx, cases(), body, ctx.budget)


SUBCHECKS = {"exhaustive": exhaustive, "generated": generated}


def replay(kind, case):
    if kind == "exhaustive":
        exhaustive_body(case)
    else:
        body(case)
