#!/venv/bin/python
"""Run the registered checks against the seeded regressions kept under /verif/seeded/<name>/
(patch.diff, demo.py, meta.json).  For each: scratch copy of /repo outside /repo and /verif, apply the patch,
optionally confirm (baseline suite green, demo fails with / passes without the patch), run the quick check of
the property the change targets (or the checks given with --checks) with VERIF_REPO pointing at the copy, and
expect exit 1.  The copy is removed afterwards.  Not a registered check.

usage: selftest/run_seeded.py [--only REGEX] [--confirm] [--checks C02,C11 | --all-checks] [--tier quick] [--jobs N]
"""
import argparse
import json
import os
import re
import shutil
import subprocess
import sys
import tempfile
import time
from concurrent.futures import ThreadPoolExecutor

HERE = os.path.dirname(os.path.abspath(__file__))
VERIF = os.path.dirname(HERE)
REPO = "/repo"
ALL = ["C%02d" % i for i in range(1, 21)]


def make_copy():
    d = tempfile.mkdtemp(prefix="iopt-seed-", dir=os.environ.get("TMPDIR", "/tmp"))
    subprocess.check_call("git -C %s ls-files -z | (cd %s && xargs -0 cp --parents -t %s)" % (REPO, REPO, d), shell=True)
    subprocess.check_call("cd %s && git init -q . && git add -A >/dev/null && git -c user.email=a@b -c user.name=x "
                          "commit -qm base" % d, shell=True)
    return d


def shadow_home():
    shadow = tempfile.mkdtemp(prefix="verif-shadow-", dir=os.environ.get("TMPDIR", "/tmp"))
    for name in ("check", "vlib", "props", "golden", "known_findings.txt", ".deps"):
        src = os.path.join(VERIF, name)
        if os.path.exists(src):
            os.symlink(src, os.path.join(shadow, name))
    os.makedirs(os.path.join(shadow, "replays"))
    return shadow


def run_check(pid, root, tier, seed):
    shadow = shadow_home()
    env = dict(os.environ, VERIF_REPO=root, VERIF_SEED=str(seed))
    env.pop("VERIF_HOME", None)
    t0 = time.time()
    r = subprocess.run(["/bin/sh", os.path.join(shadow, "check"), pid, "--tier", tier], capture_output=True,
                       text=True, env=env, cwd=shadow)
    lines = r.stdout.splitlines()
    detail = ""
    for i, l in enumerate(lines):
        if l.startswith("VIOLATION"):
            detail = " | ".join(lines[i:i + 2])[:260]
            break
    if not detail:
        detail = (r.stdout + r.stderr)[-200:].replace("\n", " | ")
    shutil.rmtree(shadow, ignore_errors=True)
    return r.returncode, detail, time.time() - t0


def one(name, a):
    d = os.path.join(VERIF, "seeded", name)
    meta = json.load(open(os.path.join(d, "meta.json")))
    root = make_copy()
    out = {"name": name, "property": meta["property"], "lines": [], "rec": {}}
    try:
        r = subprocess.run(["git", "apply", os.path.join(d, "patch.diff")], cwd=root, capture_output=True, text=True)
        if r.returncode:
            out["lines"].append("PATCH DOES NOT APPLY: " + r.stderr[:200])
            return out
        if a.confirm:
            t = subprocess.run("/venv/bin/python -m pytest -q -p no:cacheprovider --timeout=900 2>&1 | tail -1",
                               shell=True, cwd=root, capture_output=True, text=True).stdout.strip()
            demo = [f for f in os.listdir(d) if f.startswith("demo")][0]
            shutil.copy(os.path.join(d, demo), os.path.join(root, "_demo.py"))
            w = subprocess.run(["/venv/bin/python", "-W", "ignore", "_demo.py"], cwd=root, capture_output=True,
                               text=True, env=dict(os.environ, PYTHONPATH=root, MPLBACKEND="Agg"))
            subprocess.run(["git", "apply", "-R", os.path.join(d, "patch.diff")], cwd=root)
            wo = subprocess.run(["/venv/bin/python", "-W", "ignore", "_demo.py"], cwd=root, capture_output=True,
                                text=True, env=dict(os.environ, PYTHONPATH=root, MPLBACKEND="Agg"))
            subprocess.run(["git", "apply", os.path.join(d, "patch.diff")], cwd=root)
            out["lines"].append("confirm: tests[%s] demo with patch exit %d, without exit %d" %
                                (t, w.returncode, wo.returncode))
            out["rec"]["confirmed"] = {"baseline_suite_with_patch": t, "demo_exit_with_patch": w.returncode,
                                       "demo_exit_without_patch": wo.returncode,
                                       "demo_message": (w.stdout + w.stderr).strip().splitlines()[-1][:300]
                                       if (w.stdout + w.stderr).strip() else ""}
        checks = ALL if a.all_checks else (a.checks.split(",") if a.checks else meta["property"].split(","))
        for pid in checks:
            rc, detail, wall = run_check(pid, root, a.tier, a.seed)
            verdict = "CAUGHT" if rc == 1 else ("missed" if rc == 0 else "HARNESS(%d)" % rc)
            out["lines"].append("%-8s %s %5.0fs %s" % (verdict, pid, wall, detail if rc else ""))
            out["rec"].setdefault("checks", {})[pid] = {"verdict": verdict.strip(), "tier": a.tier, "seed": a.seed,
                                                         "detail": detail[:260] if rc else ""}
    finally:
        shutil.rmtree(root, ignore_errors=True)
    if a.record and out["rec"]:
        mp = os.path.join(d, "meta.json")
        meta = json.load(open(mp))
        ver = meta.setdefault("verification", {})
        if "confirmed" in out["rec"]:
            ver["confirmed"] = out["rec"]["confirmed"]
        ver.setdefault("checks", {}).update(out["rec"].get("checks", {}))
        ver["how"] = ("selftest/run_seeded.py: scratch copy of /repo outside /repo and /verif, git apply patch.diff, "
                      "baseline suite, demo.py with and without the patch, then ./check <ID> --tier quick with "
                      "VERIF_REPO pointing at the copy; copy removed afterwards")
        with open(mp, "w") as f:
            json.dump(meta, f, indent=1, ensure_ascii=False)
            f.write("\n")
    return out


def main():
    ap = argparse.ArgumentParser()
    ap.add_argument("--only")
    ap.add_argument("--confirm", action="store_true")
    ap.add_argument("--checks")
    ap.add_argument("--all-checks", action="store_true")
    ap.add_argument("--tier", default="quick")
    ap.add_argument("--seed", type=int, default=1)
    ap.add_argument("--jobs", type=int, default=1)
    ap.add_argument("--record", action="store_true", help="write the outcome into seeded/<name>/meta.json")
    a = ap.parse_args()
    names = sorted(n for n in os.listdir(os.path.join(VERIF, "seeded"))
                   if os.path.exists(os.path.join(VERIF, "seeded", n, "patch.diff")))
    if a.only:
        names = [n for n in names if re.search(a.only, n)]
    with ThreadPoolExecutor(a.jobs) as ex:
        for out in ex.map(lambda n: one(n, a), names):
            print("== %s (targets %s)" % (out["name"], out["property"]))
            for l in out["lines"]:
                print("   " + l)
            sys.stdout.flush()


if __name__ == "__main__":
    main()
