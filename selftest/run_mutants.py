#!/venv/bin/python
"""Sensitivity self-test: apply one catalogued regression at a time to a scratch copy of /repo and
expect the quick check of the targeted property to report a violation (exit 1).

usage: selftest/run_mutants.py [--only REGEX] [--tests] [--props C02,C03] [--jobs N]
  --tests  also run the repository's baseline suite on the mutated copy (must stay green)
Not a registered check; it documents which check catches which change (DESIGN.md section 4).
"""
import argparse
import json
import os
import re
import shutil
import subprocess
import sys
import tempfile
import time
from concurrent.futures import ThreadPoolExecutor

HERE = os.path.dirname(os.path.abspath(__file__))
VERIF = os.path.dirname(HERE)
REPO = "/repo"


def load_catalogue():
    muts = []
    for fn in sorted(os.listdir(os.path.join(HERE, "mutants"))):
        if fn.endswith(".json"):
            muts += json.load(open(os.path.join(HERE, "mutants", fn)))
    return muts


def make_copy():
    d = tempfile.mkdtemp(prefix="iopt-mut-", dir=os.environ.get("TMPDIR", "/tmp"))
    # working-tree copy of tracked files (no .git, no images needed by nothing)
    subprocess.check_call("git -C %s ls-files -z | (cd %s && xargs -0 cp --parents -t %s)" % (REPO, REPO, d),
                          shell=True)
    return d


def apply(mut, root):
    for ed in mut["edits"]:
        p = os.path.join(root, ed["file"])
        s = open(p, encoding="utf-8").read()
        cnt = s.count(ed["old"])
        if cnt != ed.get("count", 1):
            raise RuntimeError("%s: pattern occurs %d times in %s" % (mut["id"], cnt, ed["file"]))
        s = s.replace(ed["old"], ed["new"])
        open(p, "w", encoding="utf-8").write(s)


def run_one(mut, args):
    root = make_copy()
    t0 = time.time()
    out = {"id": mut["id"], "property": mut["property"]}
    try:
        apply(mut, root)
        if args.tests:
            r = subprocess.run("cd %s && /venv/bin/python -m pytest -q -p no:cacheprovider -x --timeout=900 "
                               "2>&1 | tail -3" % root, shell=True, capture_output=True, text=True)
            out["tests"] = r.stdout.strip().splitlines()[-1] if r.stdout.strip() else "?"
        res = {}
        for pid in mut["property"].split(","):
            env = dict(os.environ, VERIF_REPO=root, VERIF_SEED=str(args.seed))
            env.pop("VERIF_HOME", None)
            # evidence/replays of mutant runs must not overwrite the real ones: run from a shadow home
            shadow = tempfile.mkdtemp(prefix="verif-shadow-", dir=os.environ.get("TMPDIR", "/tmp"))
            for name in ("check", "vlib", "props", "golden", "known_findings.txt", ".deps"):
                src = os.path.join(VERIF, name)
                if os.path.exists(src):
                    os.symlink(src, os.path.join(shadow, name))
            os.makedirs(os.path.join(shadow, "replays"))
            if os.path.isdir(os.path.join(VERIF, "replays", "regress")) and not args.no_regress:
                os.symlink(os.path.join(VERIF, "replays", "regress"), os.path.join(shadow, "replays", "regress"))
            cmd = ["/bin/sh", os.path.join(shadow, "check"), pid, "--tier", args.tier]
            r = subprocess.run(cmd, capture_output=True, text=True, env=env, cwd=shadow)
            first = [l for l in r.stdout.splitlines() if l.startswith("VIOLATION")][:1]
            detail = ""
            if first:
                idx = r.stdout.splitlines().index(first[0])
                detail = " | ".join(r.stdout.splitlines()[idx:idx + 2])[:300]
            res[pid] = (r.returncode, detail or (r.stdout + r.stderr)[-300:].replace("\n", " | "))
            shutil.rmtree(shadow, ignore_errors=True)
        out["res"] = res
    except Exception as e:
        out["error"] = repr(e)
    finally:
        shutil.rmtree(root, ignore_errors=True)
    out["wall"] = round(time.time() - t0, 1)
    return out


def main():
    ap = argparse.ArgumentParser()
    ap.add_argument("--only")
    ap.add_argument("--props")
    ap.add_argument("--tests", action="store_true")
    ap.add_argument("--tier", default="quick")
    ap.add_argument("--seed", type=int, default=1)
    ap.add_argument("--jobs", type=int, default=1)
    ap.add_argument("--no-regress", action="store_true", help="skip regression replays (test the generators)")
    a = ap.parse_args()
    muts = load_catalogue()
    if a.only:
        muts = [m for m in muts if re.search(a.only, m["id"])]
    if a.props:
        want = set(a.props.split(","))
        muts = [m for m in muts if want & set(m["property"].split(","))]
    bad = 0
    with ThreadPoolExecutor(a.jobs) as ex:
        for out in ex.map(lambda m: run_one(m, a), muts):
            if "error" in out:
                print("ERROR  %-40s %s" % (out["id"], out["error"]))
                bad += 1
                continue
            for pid, (rc, detail) in out["res"].items():
                verdict = "KILLED" if rc == 1 else ("MISSED" if rc == 0 else "HARNESS(%d)" % rc)
                if rc != 1:
                    bad += 1
                print("%-8s %-4s %-42s %5.1fs %s %s" % (verdict, pid, out["id"], out["wall"],
                                                       out.get("tests", ""), detail[:200]))
            sys.stdout.flush()
    return 1 if bad else 0


if __name__ == "__main__":
    sys.exit(main())
