"""Reference re-statement of the AGP decision rule (never calls iOpt) and helpers to run the real
solver while recording everything the properties mention."""
import bisect
import contextlib
import io
import math

import numpy as np

from vlib.objectives import LoggedProblem
from vlib.runner import fail


class AgpModel:
    """Replays a trial history [(x_k, z_k)] in evaluation order over a sorted list."""

    def __init__(self, n, r):
        self.n, self.r = n, float(r)
        self.xs = [0.0, 1.0]
        self.zs = [None, None]
        self.dl = [0.0, 1.0]      # dl[i]: Hoelder length of (xs[i-1], xs[i])
        self.M = 1.0
        self.zbest = None
        self.count = 0

    def delta(self, xl, xr):
        return pow(xr - xl, 1.0 / self.n)

    def characteristics(self):
        """numpy array R[i-1] for interval (xs[i-1], xs[i]), i = 1..len-1, with current M and z*."""
        m = len(self.xs)
        rm = self.r * self.M
        d = np.array(self.dl[1:], dtype=float)
        z = np.array([0.0 if v is None else v for v in self.zs], dtype=float)
        zl, zr = z[:-1], z[1:]
        # (quotients first: objective values of magnitude 1e153 and more must not overflow in the model either)
        t = (zr - zl) / rm
        R = d + t * t / d - 2.0 * ((zr - self.zbest) / rm + (zl - self.zbest) / rm)
        # boundary intervals: the outer ends are never evaluated
        R[0] = 2.0 * d[0] - 4.0 * (z[1] - self.zbest) / rm
        R[m - 2] = 2.0 * d[m - 2] - 4.0 * (z[m - 2] - self.zbest) / rm
        return R

    def locate(self, x):
        """index i with xs[i-1] < x < xs[i], or None if x coincides with a stored coordinate / outside."""
        i = bisect.bisect_left(self.xs, x)
        if i <= 0 or i >= len(self.xs) or self.xs[i] == x:
            return None
        return i

    def predict(self, i):
        xl, xr = self.xs[i - 1], self.xs[i]
        zl, zr = self.zs[i - 1], self.zs[i]
        x = 0.5 * (xl + xr)
        if zl is not None and zr is not None:
            dif = zr - zl
            sg = 1.0 if dif > 0 else -1.0
            x -= 0.5 * sg * pow(abs(dif) / self.M, self.n) / self.r
        return x

    def insert(self, i, x, z):
        """Insert trial (x, z) into interval i; returns True if M grew."""
        xl, xr = self.xs[i - 1], self.xs[i]
        zl, zr = self.zs[i - 1], self.zs[i]
        dnew = self.delta(xl, x)
        dold = self.delta(x, xr)
        self.xs.insert(i, x)
        self.zs.insert(i, z)
        self.dl[i] = dold
        self.dl.insert(i, dnew)
        grew = False
        if zl is not None:
            m = abs(zl - z) / dnew
            if m > self.M:
                self.M, grew = m, True
        if zr is not None:
            m = abs(z - zr) / dold
            if m > self.M:
                self.M, grew = m, True
        improved = self.zbest is None or z < self.zbest
        if improved:
            self.zbest = z
        self.count += 1
        return grew, improved

    def next_is_degenerate(self, rtol=1e-9):
        """True if for some maximal interval the float midpoint rule returns an end point (the method
        then raises its own 'x is outside of interval' error: float resolution is exhausted)."""
        R = self.characteristics()
        mx = float(R.max())
        zmag = max([abs(v) for v in self.zs if v is not None] or [0.0])
        for j in np.nonzero(R >= mx - rtol * (1 + abs(mx)) - 64.0 * math.ulp(zmag) / (self.r * self.M))[0]:
            i = int(j) + 1
            x = self.predict(i)
            if not (self.xs[i - 1] < x < self.xs[i]):
                return True
        return False


def replay_history(n, r, hist, check_rule=True, rtol=1e-9):
    """Replay hist = [(x, z), ...].  With check_rule every decision is compared with the AGP rule.
    Returns the model and per-trial records {D, M_before, grew, improved, tie, R, Rmax}."""
    model = AgpModel(n, r)
    info = []
    if not hist:
        return model, info
    x0, z0 = hist[0]
    if check_rule and x0 != 0.5:
        fail("first trial is at curve coordinate %r, not 0.5" % (x0,))
    i = model.locate(x0)
    if i is None:
        fail("first trial coordinate %r is not strictly inside (0,1)" % (x0,))
    model.insert(i, x0, z0)
    model.M = 1.0  # no pair of evaluated neighbours exists yet
    info.append({"D": None, "M_before": 1.0, "grew": False, "improved": True, "tie": False})
    for k in range(1, len(hist)):
        x, z = hist[k]
        i = model.locate(x)
        if i is None:
            if 0.0 <= x <= 1.0 and x in model.xs:
                fail("trial %d re-evaluates curve coordinate %r" % (k + 1, x))
            fail("trial %d coordinate %r is outside (0,1)" % (k + 1, x))
        rec = {"D": model.dl[i], "M_before": model.M, "tie": False}
        if check_rule:
            R = model.characteristics()
            mx = float(R.max())
            mine = float(R[i - 1])
            # the term 2(z_r+z_l-2z*)/(rM) cancels values of the objective's level: its rounding error is a few
            # ulp of that level over rM, whatever the order of the operations (negligible for levels around 1)
            zmag = max(abs(v) for v in model.zs if v is not None)
            tol = rtol * (1.0 + abs(mx)) + 64.0 * math.ulp(zmag) / (model.r * model.M)
            if not (mine >= mx - tol):
                fail("trial %d (x=%r) subdivides interval (%r, %r) with characteristic %r while the "
                     "maximal characteristic is %r (M=%r, z*=%r, r=%r, N=%d)" %
                     (k + 1, x, model.xs[i - 1], model.xs[i], mine, mx, model.M, model.zbest, r, n))
            rec["tie"] = int((R >= mx - tol).sum()) > 1
            px = model.predict(i)
            xl, xr = model.xs[i - 1], model.xs[i]
            if abs(px - x) > 1e-12 + 1e-9 * (xr - xl):
                fail("trial %d is at x=%r but the rule places it at %r inside (%r, %r) "
                     "(zl=%r, zr=%r, M=%r, r=%r, N=%d)" %
                     (k + 1, x, px, xl, xr, model.zs[i - 1], model.zs[i], model.M, r, n))
        grew, improved = model.insert(i, x, z)
        rec["grew"], rec["improved"] = grew, improved
        info.append(rec)
    return model, info


class Recorder:
    """Listener recording every notification (built lazily as a subclass of iOpt's Listener)."""


def make_recorder(clock):
    from iOpt.method.listener import Listener

    class _Recorder(Listener):
        def __init__(self):
            self.events = []       # ("start"|"iter"|"stop", clock, payload)
            self.items = []        # SearchDataItem objects in evaluation order
            self.hook = None       # optional callable(kind, payload) run inside the callback

        def BeforeMethodStart(self, method):
            self.events.append(("start", clock[0], None))
            if self.hook:
                self.hook("start", method)

        def OnEndIteration(self, savedNewPoints, solution):
            pts = list(savedNewPoints)
            self.items.extend(pts)
            # values as they are at notification time (the local refinement later rewrites the best item in place)
            snap = [(tuple(float(c) for c in it.GetY().floatVariables), float(it.GetZ())) for it in pts]
            self.events.append(("iter", clock[0], (pts, solution), snap))
            if self.hook:
                self.hook("iter", (pts, solution))

        def OnMethodStop(self, searchData, solution, status):
            self.events.append(("stop", clock[0], (searchData, solution, status)))
            if self.hook:
                self.hook("stop", (searchData, solution, status))

    return _Recorder()


class Run:
    """One real Solver on a LoggedProblem, with a recording listener and captured stdout."""

    def __init__(self, recipe, params, refine=False, record=True, listeners=(), default_params=False,
                 clock=None, max_calls="auto", sp_obj=None, problem_obj=None):
        from iOpt.solver import Solver
        from iOpt.solver_parametrs import SolverParameters
        self.recipe, self.params = recipe, params
        self.n = recipe.get("n")
        if problem_obj is not None:
            # a problem object the caller also hands to other solvers
            self.problem = problem_obj
            if "shipped" in recipe:
                recipe = dict(recipe, n=self.problem.numberOfFloatVariables,
                              lower=[float(v) for v in self.problem.lowerBoundOfFloatVariables],
                              upper=[float(v) for v in self.problem.upperBoundOfFloatVariables])
                self.recipe = recipe
                self.n = recipe["n"]
        elif "shipped" in recipe:
            from vlib.objectives import LoggedShipped, make_shipped
            self.problem = LoggedShipped(make_shipped(*recipe["shipped"]), clock=clock)
            recipe = dict(recipe, n=self.problem.numberOfFloatVariables,
                          lower=[float(v) for v in self.problem.lowerBoundOfFloatVariables],
                          upper=[float(v) for v in self.problem.upperBoundOfFloatVariables])
            self.recipe = recipe
            self.n = recipe["n"]
        else:
            self.problem = LoggedProblem(recipe["n"], recipe["lower"], recipe["upper"], recipe["obj"], clock=clock,
                                         style=recipe.get("style"))
        if sp_obj is not None:
            # a SolverParameters object the caller also hands to other solvers
            self.sp = sp_obj
            self.solver = Solver(self.problem, parameters=self.sp)
        elif default_params:
            self.solver = Solver(self.problem)
            self.sp = self.solver.parameters
        else:
            extra = {}
            if params.get("startPoint") is not None:
                # SolverParameters.startPoint is part of the public parameter set (the pinned code ignores it)
                from iOpt.trial import Point
                import numpy as np
                extra["startPoint"] = Point(np.array(params["startPoint"], dtype=np.double), [])
            dens = recipe.get("density", 10)
            if recipe.get("density_type") == "np64":
                import numpy as np
                dens = np.int64(dens)          # a density that comes out of np.arange / an int array
            elif recipe.get("density_type") == "np32":
                import numpy as np
                dens = np.int32(dens)
            if params.get("assign"):
                # the parameters object is built first (defaults or other values) and the fields are assigned
                # afterwards, before the Solver is built - the usual way to tweak a shared parameter set
                self.sp = SolverParameters(eps=0.5, r=7.25, itersLimit=17, evolventDensity=dens, **extra)
                self.sp.r = params["r"]
                self.sp.eps = params["eps"]
                self.sp.itersLimit = params["itersLimit"]
                self.sp.refineSolution = refine
            else:
                self.sp = SolverParameters(eps=params["eps"], r=params["r"], itersLimit=params["itersLimit"],
                                           evolventDensity=dens, refineSolution=refine, **extra)
            if params.get("rebound"):
                self._rebound = True
            self.solver = Solver(self.problem, parameters=self.sp)
            if params.get("zoom"):
                # the solver is re-targeted to a sub-box through its own evolvent before the first iteration
                lo = [float(v) for v in self.problem.lowerBoundOfFloatVariables]
                hi = [float(v) for v in self.problem.upperBoundOfFloatVariables]
                self.solver.evolvent.SetBounds([a + 0.25 * (b - a) for a, b in zip(lo, hi)],
                                               [b - 0.125 * (b - a) for a, b in zip(lo, hi)])
            if getattr(self, "_rebound", False):
                # the box is handed to the solver's evolvent once more through the public SetBounds: a no-op
                self.solver.evolvent.SetBounds([float(v) for v in recipe["lower"]], [float(v) for v in recipe["upper"]])
        self.rec = None
        if record:
            self.rec = make_recorder(self.problem.clock)
            self.solver.AddListener(self.rec)
        for l in listeners:
            self.solver.AddListener(l)
        self.out = io.StringIO()
        self.raised = None

    def _guard_on(self):
        from vlib import runner
        return self.line_guard or runner.FORCE_LINE_GUARD[0]

    def step(self, k=1):
        with contextlib.redirect_stdout(self.out):
            if self._guard_on():
                self._guarded("DoGlobalIteration(%d)" % k, self.solver.DoGlobalIteration, k)
            else:
                self.solver.DoGlobalIteration(k)

    def solve(self):
        with contextlib.redirect_stdout(self.out):
            if self._guard_on():
                return self._guarded("Solve()", self.solver.Solve)
            return self.solver.Solve()

    line_guard = False      # set on a Run to bound every solver call by a count of executed Python lines

    def _guarded(self, what, fn, *args):
        """Deterministic termination guard (no wall clock): a call that executes far more lines than any run
        of its budget can need does not terminate."""
        from vlib.steps import guarded_call, line_budget
        from vlib.runner import fail
        budget = line_budget(max(self.sp.itersLimit if what == "Solve()" else 0, len(self.problem.log) +
                                 (args[0] if args else 0)), len(self.problem.log))
        res, hit = guarded_call(budget, fn, *args)
        if hit:
            fail("%s did not return within %d executed Python lines after %d completed evaluations "
                 "(it does not terminate)" % (what, budget, len(self.problem.log)))
        return res

    def results(self):
        return self.solver.GetResults()

    def history(self):
        """[(x, z)] in evaluation order, from the items handed to the listener."""
        return [(float(it.GetX()), float(it.GetZ())) for it in self.rec.items]

    def stdout(self):
        return self.out.getvalue()

    def density(self):
        return int(self.solver.evolvent.evolventDensity)


def best_of(sol):
    """(point, value) of the reported optimum.  Only called once at least one trial is complete, so a Solution
    whose best trial cannot be read (still the empty placeholder, no value holder, ...) is a violation of the
    property under check, not a harness problem."""
    try:
        t = sol.bestTrials[0]
        return tuple(float(v) for v in t.point.floatVariables), float(t.functionValues[0].value)
    except (AttributeError, IndexError, TypeError, ValueError) as e:
        from vlib.runner import fail
        t = sol.bestTrials[0] if getattr(sol, "bestTrials", None) else None
        fail("the reported solution has no readable best trial after completed trials (%s: %s; point=%r, values=%r)"
             % (type(e).__name__, e, getattr(t, "point", None), getattr(t, "functionValues", None)))


def hoelder_eps_cmp(d, eps):
    """-1 if d is clearly below eps, +1 if clearly not below, 0 if within 4 ulp (either accepted)."""
    if abs(d - eps) <= 4 * math.ulp(max(abs(d), abs(eps))):
        return 0
    return -1 if d < eps else 1


def swallowed_exception_is_float_resolution(run):
    """After a Solve() that printed 'Exception was thrown': True iff the independent model confirms that
    the float midpoint rule has hit an end point (needs a Run created with record=True)."""
    hist = run.history()
    if len(hist) < 1 or len(hist) != len(run.problem.log):
        return False
    r = run.sp.r
    model, _ = replay_history(run.n, r, hist, check_rule=False)
    return model.next_is_degenerate()
