"""Shipped painter listeners attached to a run of another property's check.

The painters evaluate the objective on a plotting grid inside their callbacks.  Those probes are not trials: the
proxy below removes them from the problem's evaluation log as soon as the callback returns, so that the oracles that
compare the solver's state with "the evaluations made" keep seeing exactly the trials (and the refinement)."""
import shutil
import sys
import tempfile

from hypothesis import strategies as st


@st.composite
def static_painter_specs(draw, n):
    """A StaticPaintListener (any N) or StaticNDPaintListener (N >= 2) in the modes that draw the objective itself
    (the modes that fit a surrogate to the trials have preconditions of their own; C13 drives those)."""
    if n >= 2 and draw(st.integers(0, 2)) > 0:
        pair = draw(st.permutations(list(range(n))))[:2]
        return {"kind": "staticnd", "pair": list(pair), "mode": "lines layers", "calc": "objective function"}
    return {"kind": "static1d", "mode": draw(st.sampled_from(["objective function", "only points"])),
            "bottom": draw(st.booleans()), "indx": draw(st.integers(0, n - 1))}


def make_painter(spec, n, outdir):
    from iOpt.method import listener as L
    if spec["kind"] == "static1d":
        return L.StaticPaintListener("s1d.png", outdir, indx=spec.get("indx", 0) % n,
                                     isPointsAtBottom=spec["bottom"], mode=spec["mode"])
    return L.StaticNDPaintListener("snd.png", outdir, varsIndxs=spec["pair"], mode=spec["mode"], calc=spec["calc"])


def attach(run, spec):
    """Add the painter described by spec to run.solver (after the listeners already attached).  Returns a cleanup
    function.  The painter's own objective probes are dropped from run.problem.log when its callback returns."""
    import matplotlib
    matplotlib.use("Agg")
    import matplotlib.pyplot as plt
    from iOpt.method.listener import Listener
    outdir = tempfile.mkdtemp(prefix="painter-")
    inner = make_painter(spec, run.n, outdir)
    log = run.problem.log
    errors = run.painter_errors = []

    class Proxy(Listener):
        def BeforeMethodStart(self, method):
            k = len(log)
            tracer = sys.gettrace()
            sys.settrace(None)         # (the painter's work is not the solver's: the executed-line bound does not count it)
            try:
                inner.BeforeMethodStart(method)
            except Exception as e:     # a painter's own failure is C13's business
                errors.append(repr(e))
            finally:
                sys.settrace(tracer)
                del log[k:]

        def OnEndIteration(self, newTrials, currentSolution):
            k = len(log)
            tracer = sys.gettrace()
            sys.settrace(None)         # (the painter's work is not the solver's: the executed-line bound does not count it)
            try:
                inner.OnEndIteration(newTrials, currentSolution)
            except Exception as e:     # a painter's own failure is C13's business
                errors.append(repr(e))
            finally:
                sys.settrace(tracer)
                del log[k:]

        def OnMethodStop(self, data, finalSolution, stopped):
            k = len(log)
            tracer = sys.gettrace()
            sys.settrace(None)         # (the painter's work is not the solver's: the executed-line bound does not count it)
            try:
                inner.OnMethodStop(data, finalSolution, stopped)
            except Exception as e:     # a painter's own failure is C13's business
                errors.append(repr(e))
            finally:
                sys.settrace(tracer)
                del log[k:]

    run.solver.AddListener(Proxy())

    def cleanup():
        plt.close("all")
        shutil.rmtree(outdir, ignore_errors=True)
    return cleanup
