"""Benchmark-family helpers: instance enumeration, real evaluation, vectorised re-implementations
(cross-checked against the real Calculate inside the checks that use them)."""
import math

import numpy as np

FAMILIES = {
    "hill": list(range(0, 1000)),
    "shekel": list(range(0, 1000)),
    "grishagin": list(range(1, 101)),
    "gkls": [(d, k) for d in (2, 3, 4, 5) for k in range(1, 101)],
    "shekel4": [1, 2, 3],
    "rastrigin": list(range(1, 13)),
    "xsquared": list(range(1, 13)),
    "stronginC3": [None],
}


POST = {"spec": None, "alive": []}     # see construct_then(): one more instance is built right after the next one


def construct_then(family, arg, after_family, after_arg):
    """Arrange that right after the NEXT construct(family, arg) another instance (after_family, after_arg) is built
    and evaluated once - a younger sibling that stays alive while the first one is used."""
    POST["spec"] = (family, arg, after_family, after_arg)
    POST["alive"] = []


def construct(family, arg):
    p = _construct(family, arg)
    spec = POST["spec"]
    if spec is not None and (family, arg) == spec[:2]:
        POST["spec"] = None
        q = _construct(spec[2], spec[3])
        pt, _ = declared(q)
        real_eval(q, pt)
        POST["alive"].append(q)
    return p


def _construct(family, arg):
    if family == "hill":
        from iOpt.problems.hill import Hill
        return Hill(arg)
    if family == "shekel":
        from iOpt.problems.shekel import Shekel
        return Shekel(arg)
    if family == "grishagin":
        from iOpt.problems.grishagin import Grishagin
        return Grishagin(arg)
    if family == "gkls":
        from iOpt.problems.GKLS import GKLS
        return GKLS(int(arg[0]), int(arg[1]))
    if family == "shekel4":
        from iOpt.problems.shekel4 import Shekel4
        return Shekel4(arg)
    if family == "rastrigin":
        from iOpt.problems.rastrigin import Rastrigin
        return Rastrigin(arg)
    if family == "xsquared":
        from iOpt.problems.xsquared import XSquared
        return XSquared(arg)
    if family == "stronginC3":
        from iOpt.problems.stronginC3 import StronginC3
        return StronginC3()
    raise ValueError(family)


def real_eval(problem, y, ftype=None, fid=None, dirty=None):
    """Value of the real Calculate at y (fresh point array; fresh holder, or with `dirty` a holder that already
    holds that value, as a caller re-using one FunctionValue does)."""
    from iOpt.trial import FunctionValue, Point, FunctionType
    fv = FunctionValue() if ftype is None else FunctionValue(ftype, fid)
    if dirty is not None:
        fv.value = dirty
    out = problem.Calculate(Point(np.array(y, dtype=np.double), []), fv)
    return float(out.value)


def bounds(problem):
    return ([float(v) for v in problem.lowerBoundOfFloatVariables],
            [float(v) for v in problem.upperBoundOfFloatVariables])


def declared(problem):
    t = problem.knownOptimum[0]
    return [float(v) for v in t.point.floatVariables], float(t.functionValues[0].value)


# ------------------------------------------------------------------ Hill / Shekel (1-D)

class HillGrid:
    """sin/cos tables on a uniform grid of [0,1]; f and f' of any Hill function by one matrix product."""

    def __init__(self, npts):
        import iOpt.problems.Hill.hill_generation as g
        self.g = g
        self.x = np.linspace(0.0, 1.0, npts)
        k = np.arange(g.NUM_HILL_COEFF, dtype=float)[:, None]
        ang = 2.0 * math.pi * k * self.x[None, :]
        self.S, self.C = np.sin(ang), np.cos(ang)
        self.k = k[:, 0]

    def f(self, fn):
        return self.g.aHill[fn] @ self.S + self.g.bHill[fn] @ self.C

    def df(self, fn):
        w = 2.0 * math.pi * self.k
        return (self.g.aHill[fn] * w) @ self.C - (self.g.bHill[fn] * w) @ self.S

    def f_at(self, fn, x):
        x = np.atleast_1d(np.asarray(x, dtype=float))
        ang = 2.0 * math.pi * self.k[:, None] * x[None, :]
        return self.g.aHill[fn] @ np.sin(ang) + self.g.bHill[fn] @ np.cos(ang)

    def df_at(self, fn, x):
        x = np.atleast_1d(np.asarray(x, dtype=float))
        w = 2.0 * math.pi * self.k
        ang = w[:, None] * x[None, :]
        return (self.g.aHill[fn] * w) @ np.cos(ang) - (self.g.bHill[fn] * w) @ np.sin(ang)


class ShekelGrid:
    def __init__(self, npts):
        import iOpt.problems.Shekel.shekel_generation as g
        self.g = g
        self.x = np.linspace(0.0, 10.0, npts)

    def f_at(self, fn, x):
        x = np.atleast_1d(np.asarray(x, dtype=float))
        k, a, c = self.g.kShekel[fn][:, None], self.g.aShekel[fn][:, None], self.g.cShekel[fn][:, None]
        return -(1.0 / (k * (x[None, :] - a) ** 2 + c)).sum(axis=0)

    def df_at(self, fn, x):
        x = np.atleast_1d(np.asarray(x, dtype=float))
        k, a, c = self.g.kShekel[fn][:, None], self.g.aShekel[fn][:, None], self.g.cShekel[fn][:, None]
        d = x[None, :] - a
        return (2.0 * k * d / (k * d * d + c) ** 2).sum(axis=0)

    def f(self, fn):
        return self.f_at(fn, self.x)

    def df(self, fn):
        return self.df_at(fn, self.x)


def local_extrema_1d(x, v, kind="min"):
    """Indices of grid-local minima (or maxima) of v, end points included."""
    w = v if kind == "min" else -v
    n = len(w)
    left = np.r_[True, w[1:] <= w[:-1]]
    right = np.r_[w[:-1] <= w[1:], True]
    return np.nonzero(left & right)[0]


def polish_1d(fun, x, i, kind="min"):
    """Refine a grid-local extremum at index i by bounded Brent on [x[i-1], x[i+1]] (fun vectorised)."""
    from scipy.optimize import minimize_scalar
    lo, hi = x[max(i - 1, 0)], x[min(i + 1, len(x) - 1)]
    sgn = 1.0 if kind == "min" else -1.0
    res = minimize_scalar(lambda t: sgn * float(fun(t)[0]), bounds=(lo, hi), method="bounded",
                          options={"xatol": 1e-12})
    cands = [(sgn * float(fun(t)[0]), t) for t in (lo, hi, x[i], res.x)]
    val, loc = min(cands)
    return sgn * val, float(loc)


# ------------------------------------------------------------------ Grishagin (2-D)

def grishagin_grid(problem, nx, ny=None):
    """Vectorised evaluation of a Grishagin instance on a uniform grid of [0,1]^2 -> (xs, ys, values[nx,ny])."""
    ny = ny or nx
    fn = problem.function
    xs, ys = np.linspace(0, 1, nx), np.linspace(0, 1, ny)
    k = np.arange(1, 8, dtype=float)[:, None]
    sx, cx = np.sin(math.pi * k * xs[None, :]), np.cos(math.pi * k * xs[None, :])
    sy, cy = np.sin(math.pi * k * ys[None, :]), np.cos(math.pi * k * ys[None, :])
    d1 = sx.T @ fn.af @ sy + cx.T @ fn.bf @ cy
    d2 = sx.T @ fn.cf @ sy - cx.T @ fn.df @ cy
    return xs, ys, -np.sqrt(d1 * d1 + d2 * d2)


# ------------------------------------------------------------------ Shekel4 / StronginC3 / separable

def shekel4_vec(fn, pts):
    import iOpt.problems.Shekel4.shekel4_generation as g
    pts = np.asarray(pts, dtype=float)
    res = np.zeros(len(pts))
    for i in range(int(g.maxI[fn - 1])):
        res -= 1.0 / (((pts - g.a[i][None, :]) ** 2).sum(axis=1) + g.c[i])
    return res


def strongin_vec(x1, x2):
    t1 = (0.5 * x1 - 0.5) ** 4
    t2 = (x2 - 1.0) ** 4
    obj = -(1.5 * x1 * x1 * np.exp(1.0 - x1 * x1 - 20.25 * (x1 - x2) ** 2) + t1 * t2 * np.exp(2.0 - t1 - t2))
    g1 = 0.01 * ((x1 - 2.2) ** 2 + (x2 - 1.2) ** 2 - 2.25)
    g2 = 100.0 * (1.0 - ((x1 - 2.0) / 1.2) ** 2 - (x2 / 2.0) ** 2)
    g3 = 10.0 * (x2 - 1.5 - 1.5 * np.sin(6.283 * (x1 - 1.75)))
    return obj, g1, g2, g3


def rastrigin_1d(x):
    return x * x - 10.0 * np.cos(2.0 * math.pi * x) + 10.0


class RealGrid:
    """Same interface as HillGrid / ShekelGrid but every value comes from the real Calculate (coarse grid,
    numerical derivative).  Used when the vectorised re-implementation no longer matches the code."""

    def __init__(self, kind, npts=20001):
        self.kind = kind
        lo, hi = (0.0, 1.0) if kind == "hill" else (0.0, 10.0)
        self.x = np.linspace(lo, hi, npts)
        self._p = {}
        self.real = True

    def prob(self, fn):
        if fn not in self._p:
            self._p.clear()
            self._p[fn] = construct(self.kind, fn)
        return self._p[fn]

    def f_at(self, fn, x):
        p = self.prob(fn)
        return np.array([real_eval(p, [float(t)]) for t in np.atleast_1d(np.asarray(x, dtype=float))])

    def df_at(self, fn, x):
        x = np.atleast_1d(np.asarray(x, dtype=float))
        lo, hi = self.x[0], self.x[-1]
        d = 1e-6 * (hi - lo)
        a, b = np.clip(x - d, lo, hi), np.clip(x + d, lo, hi)
        return (self.f_at(fn, b) - self.f_at(fn, a)) / (b - a)

    def f(self, fn):
        return self.f_at(fn, self.x)

    def df(self, fn):
        v = self.f(fn)
        return np.r_[(v[1] - v[0]) / (self.x[1] - self.x[0]), (v[2:] - v[:-2]) / (self.x[2:] - self.x[:-2]),
                     (v[-1] - v[-2]) / (self.x[-1] - self.x[-2])]


def agrees_1d(grid, prob, fn, pts, rtol=1e-9):
    for t in pts:
        a, b = float(grid.f_at(fn, t)[0]), real_eval(prob, [t])
        if abs(a - b) > rtol * (1 + abs(b)):
            return False
    return True
