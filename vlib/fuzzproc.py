"""Child process of a "fuzz:<kind>" shard: drives the Hypothesis test of one sub-check with atheris (libFuzzer),
i.e. coverage-guided mutation of the byte string Hypothesis decodes its choices from, with iOpt instrumented for
coverage.  The oracle is the sub-check's own body, so a crash is a property violation with a decoded, replayable
case.  Usage (internal): python -m vlib.fuzzproc <json-args-file>
"""
import json
import os
import sys
import time
import traceback

IOPT_MODULES = [
    "iOpt.trial", "iOpt.problem", "iOpt.solution", "iOpt.solver_parametrs", "iOpt.evolvent.evolvent",
    "iOpt.method.search_data", "iOpt.method.optim_task", "iOpt.method.method", "iOpt.method.listener",
    "iOpt.method.process", "iOpt.solver",
    "iOpt.problems.GKLS", "iOpt.problems.grishagin", "iOpt.problems.hill", "iOpt.problems.rastrigin",
    "iOpt.problems.shekel", "iOpt.problems.shekel4", "iOpt.problems.stronginC3", "iOpt.problems.xsquared",
]


def main():
    args = json.load(open(sys.argv[1]))
    out_path = args["out"]
    res = {"error": None}
    try:
        import atheris
        import importlib
        with atheris.instrument_imports(include=["iOpt", "problems"]):
            for m in IOPT_MODULES:
                try:
                    importlib.import_module(m)
                except ImportError:
                    pass
        from vlib import runner
        ctx = runner.Ctx(args["pid"], args["tier"], args["seed"], args["kind"], args["shard"], args["nshards"],
                         args["budget"], args["known"])
        ctx.fuzz = {"runs": args["budget"], "out": out_path, "workdir": args["workdir"],
                    "seed": args["seed"] * 1000 + args["shard"] + 1, "t0": time.time(), "atheris": atheris}
        mod = importlib.import_module("props." + args["modname"])
        fn = mod.SUBCHECKS[args["kind"]]
        fn(ctx)          # does not return in fuzz mode (the drive exits the process)
        res = ctx.result()
        res["error"] = "fuzz drive returned: sub-check %s does not go through hyp_run/machine_run" % args["kind"]
    except SystemExit:
        raise
    except BaseException as e:
        res["error"] = "".join(traceback.format_exception(type(e), e, e.__traceback__))[-4000:]
    with open(out_path, "w") as f:
        json.dump(res, f)
    os._exit(3)


if __name__ == "__main__":
    main()
