"""Exact cell arithmetic for the evolvent checks (C07-C09, C17, C20).  No iOpt code in here."""
from fractions import Fraction

from hypothesis import strategies as st

P = 53  # x values are exact dyadic rationals num / 2**53


def x_of(num):
    return num / float(1 << P)   # exact: num < 2**53 and power-of-two division


def num_first(i, nm):
    return i << (P - nm)


def num_last(i, nm):
    return ((i + 1) << (P - nm)) - 1


def index_of(x, nm):
    """Exact subinterval index floor(x * 2**nm) of a double x in [0,1]; x = 1 belongs to the last one."""
    T = 1 << nm
    if x >= 1.0:
        return T - 1
    return int(Fraction(x) * T)


def unit_bounds(n):
    return [-0.5] * n, [0.5] * n


def cells_unit(y, m):
    """Exact cell indices of an image in the cube [-1/2,1/2]^N; None if some coordinate is not a centre."""
    out = []
    s = float(1 << m)
    for v in y:
        c = (float(v) + 0.5) * s - 0.5     # exact for true centres: (2j+1)/2^(m+1) has <= m+1 bits
        j = int(round(c))
        if c != j or j < 0 or j >= (1 << m):
            return None
        out.append(j)
    return tuple(out)


def cell_allowance(lo, hi, m):
    """Rounding allowance (in cell widths) of the affine cube-to-box map, per coordinate."""
    return [8.0 * 2.0 ** -52 * (max(abs(a), abs(b)) / (b - a) + 1.0) * (1 << m) + 1e-9 for a, b in zip(lo, hi)]


def cells_box(y, lo, hi, m):
    """(cells, worst deviation / allowance).  cells None if a coordinate is not a centre within allowance."""
    allow = cell_allowance(lo, hi, m)
    out, worst = [], 0.0
    for v, a, b, al in zip(y, lo, hi, allow):
        c = (float(v) - a) / (b - a) * (1 << m) - 0.5
        j = int(round(c))
        dev = abs(c - j)
        worst = max(worst, dev / al)
        if dev > al or j < 0 or j >= (1 << m):
            return None, worst
        out.append(j)
    return tuple(out), worst


def centre_box(cells, lo, hi, m):
    return [a + (j + 0.5) * (b - a) / (1 << m) for j, a, b in zip(cells, lo, hi)]


def in_box(y, lo, hi):
    return all(a - 1e-12 * (abs(a) + abs(b) + (b - a)) <= float(v) <= b + 1e-12 * (abs(a) + abs(b) + (b - a))
               for v, a, b in zip(y, lo, hi))


# ---------------------------------------------------------------- strategies

@st.composite
def nm_pairs(draw, dims=(2, 3, 4, 5), max_nm=50, min_m=1):
    n = draw(st.sampled_from(list(dims)))
    m = draw(st.one_of(st.sampled_from([10, 10, min(12, max_nm // n)]), st.integers(min_m, max_nm // n)))
    m = max(min_m, min(m, max_nm // n))
    return n, m


@st.composite
def indices(draw, nm):
    """Subinterval index with weight on the ends, the tail (within 2e6 of T-1), powers of two +-1."""
    T = 1 << nm
    kind = draw(st.sampled_from(["uniform", "uniform", "head", "tail", "tailk", "pow2", "top-boundary"]))
    if kind == "uniform":
        return draw(st.integers(0, T - 1))
    if kind == "head":
        return min(T - 1, draw(st.integers(0, 64)))
    if kind == "tail":
        return max(0, T - 1 - draw(st.integers(0, 64)))
    if kind == "tailk":
        return max(0, T - 1 - draw(st.integers(0, 2_000_000)))
    if kind == "pow2":
        e = draw(st.integers(0, nm))
        return min(T - 1, max(0, (1 << e) + draw(st.sampled_from([-2, -1, 0, 1]))))
    # boundary between top-level sub-cubes at some level: multiples of 2^(N*k) +- small
    e = draw(st.integers(0, nm))
    base = draw(st.integers(0, T >> e)) << e
    return min(T - 1, max(0, base + draw(st.sampled_from([-2, -1, 0, 1]))))


@st.composite
def offsets(draw, nm):
    """Offset inside a subinterval, in units of 2**-53: first, second, middle, last, or uniform."""
    span = 1 << (P - nm)
    kind = draw(st.sampled_from(["first", "second", "middle", "last", "uniform"]))
    if kind == "first":
        return 0
    if kind == "second":
        return min(1, span - 1)
    if kind == "middle":
        return span // 2
    if kind == "last":
        return span - 1
    return draw(st.integers(0, span - 1))


@st.composite
def evo_boxes(draw, n, m):
    """Boxes whose affine map keeps cell identification well conditioned at density m."""
    from vlib import gen
    if m <= 14:
        b = draw(gen.boxes(n))
        if m <= 10 and draw(st.integers(0, 7)) == 0:
            # a side that is short compared with its distance from the origin (a one-second window of a time stamp,
            # [1.7e9, 1.7e9 + 1]): 1e6..2e9 widths away, still thousands of doubles per cell at this density
            k = draw(st.integers(0, n - 1))
            w = draw(st.sampled_from([1.0, 2.0, 5e-4, 0.25, 37.0]))
            a = float(draw(st.sampled_from([-1.0, 1.0])) * w * draw(st.integers(10 ** 6, 2 * 10 ** 9)))
            b["lower"][k], b["upper"][k] = a, a + w
        return b["lower"], b["upper"]
    kind = draw(st.sampled_from(["unit", "sym", "mild"]))
    lo, hi = [], []
    for _ in range(n):
        if kind == "unit":
            lo.append(0.0), hi.append(1.0)
        elif kind == "sym":
            a = draw(st.sampled_from([0.5, 1.0, 2.0, 8.0]))
            lo.append(-a), hi.append(a)
        else:
            w = draw(st.floats(-2, 2).map(lambda e: float(10.0 ** e)))
            c = draw(st.floats(-4.0, 4.0)) * w
            lo.append(float(c - w / 2)), hi.append(float(c + w / 2))
    return lo, hi
