"""Common runner: ./check <ID> [--tier quick|thorough] [--replay FILE]

Exit codes: 0 held on everything explored, 1 violation (prints VIOLATION lines), 2 harness error.
"""
import argparse
import glob
import hashlib
import importlib
import io
import json
import multiprocessing as mp
import os
import sys
import time
import traceback
from collections import Counter

HOME = os.environ.get("VERIF_HOME") or os.path.dirname(os.path.dirname(os.path.abspath(__file__)))
CODE_HOME = os.path.dirname(os.path.dirname(os.path.realpath(__file__)))
REPO = os.path.realpath(os.environ.get("VERIF_REPO", "/repo"))
NPROC = max(1, min(16, int(os.environ.get("VERIF_NPROC", os.cpu_count() or 1))))

PROPS = {
    "C01": "c01_eps_optimality", "C02": "c02_decision_rule", "C03": "c03_termination",
    "C04": "c04_best_trial", "C05": "c05_box_refine", "C06": "c06_search_record",
    "C07": "c07_evolvent_bijection", "C08": "c08_evolvent_holder", "C09": "c09_evolvent_inverse",
    "C10": "c10_declared_optimum", "C11": "c11_batching", "C12": "c12_isolation",
    "C13": "c13_listeners", "C14": "c14_gkls", "C15": "c15_pure_eval",
    "C16": "c16_fault_containment", "C17": "c17_evolvent_pure", "C18": "c18_metadata_tables",
    "C19": "c19_containers", "C20": "c20_density",
}


class Violation(AssertionError):
    """The property under check does not hold for this case."""


class HarnessError(RuntimeError):
    """Something is wrong with the checking machinery itself (never a verdict)."""


def fail(msg):
    # single raise site: every violation has the same Hypothesis "interesting origin"
    raise Violation(msg)


def digest(obj):
    return hashlib.sha1(json.dumps(obj, sort_keys=True, default=str).encode()).hexdigest()[:16]


def jsonable(o):
    """Round-trip through JSON so that what is stored is exactly what a replay will read."""
    return json.loads(json.dumps(o, default=_default))


def _default(o):
    try:
        import numpy as np
        if isinstance(o, np.ndarray):
            return o.tolist()
        if isinstance(o, (np.floating,)):
            return float(o)
        if isinstance(o, (np.integer,)):
            return int(o)
        if isinstance(o, (np.bool_,)):
            return bool(o)
    except Exception:
        pass
    if isinstance(o, (set, frozenset, tuple)):
        return list(o)
    return repr(o)


def exception_origin(exc):
    """'iopt' if the innermost frame that belongs to the repository or to /verif is a repository
    frame, 'harness' otherwise."""
    tb = traceback.extract_tb(exc.__traceback__)
    for fr in reversed(tb):
        fn = os.path.realpath(fr.filename)
        if fn.startswith(REPO + os.sep):
            return "iopt", "%s:%d" % (os.path.relpath(fn, REPO), fr.lineno)
        if fn.startswith(CODE_HOME + os.sep):
            return "harness", "%s:%d" % (os.path.relpath(fn, CODE_HOME), fr.lineno)
    return "harness", "?"


def guarded(body, case):
    """Run body(case); an unexpected exception raised by iOpt code is a violation of the property
    under check (its observable cannot be produced); one raised by the harness is a harness error."""
    import hypothesis.errors as he
    try:
        return body(case)
    except Violation:
        raise
    except he.HypothesisException:
        raise
    except Exception as e:  # noqa
        who, where = exception_origin(e)
        if who == "iopt":
            fail("unexpected %s raised inside iOpt at %s: %s" % (type(e).__name__, where, str(e)[:200]))
        raise


class Ctx:
    """Per-shard accumulator, returned to the parent as a plain dict."""

    def __init__(self, pid, tier, seed, kind, shard, nshards, budget, known):
        self.pid, self.tier, self.seed, self.kind = pid, tier, seed, kind
        self.shard, self.nshards, self.budget = shard, nshards, budget
        self.known = known
        self.hseed = (seed * 1000 + shard) * 64 + (int(hashlib.sha1(kind.encode()).hexdigest(), 16) % 64)
        self.evaluations = 0
        self.nontrivial = set()
        self.classes = Counter()
        self.samples = []
        self.violations = []
        self.excluded = 0
        self.nontrivial_counted = 0
        self.exhaustive = None
        self.extra = {}
        self._nsamples = 0

    def record(self, case, nontrivial=False, classes=(), sample=None):
        self.evaluations += 1
        if nontrivial:
            self.nontrivial.add(digest(case))
        for c in classes:
            self.classes[c] += 1
        # keep a few samples, preferring non-trivial ones
        if len(self.samples) < 3 and (nontrivial or self._nsamples < 1):
            self.samples.append(jsonable(sample if sample is not None else case))
            self._nsamples += 1

    def count(self, n=1, classes=(), nontrivial=0):
        """n enumerated cases at once; `nontrivial` of them are non-trivial and distinct by construction."""
        self.evaluations += n
        self.nontrivial_counted += nontrivial
        for c in classes:
            self.classes[c] += n

    def violation(self, case, message, kind=None):
        self.violations.append({"kind": kind or self.kind, "case": jsonable(case), "message": str(message)[:2000]})

    def result(self):
        return {"kind": self.kind, "shard": self.shard, "evaluations": self.evaluations,
                "nontrivial": sorted(self.nontrivial), "classes": dict(self.classes),
                "samples": self.samples, "violations": self.violations, "excluded": self.excluded,
                "nontrivial_counted": self.nontrivial_counted, "exhaustive": self.exhaustive, "extra": self.extra}


class CaseCpuLimit(BaseException):
    """Raised by the per-case CPU-time alarm (never a verdict by itself)."""


CASE_CPU_S = [float(os.environ.get("VERIF_CASE_CPU_S", "30"))]   # after the first alarm in a process: 8 s
FORCE_LINE_GUARD = [False]      # read by vlib.agp.Run: bound every solver call by executed lines


def run_case(body, case, cpu_s=None):
    """body(case) under a CPU-time alarm.  A case that burns CASE_CPU_S seconds of CPU (cases take milliseconds to
    a few seconds; 30 s, then 8 s once an alarm has fired in the process) is abandoned - whatever it returned or raised after the alarm is discarded, because
    Process.Solve swallows the alarm like any other exception - and re-run once, without a clock, with every solver
    call bounded by a count of executed Python lines: the verdict 'does not terminate' is then deterministic; a
    case that is merely slow passes the re-run."""
    import signal
    fired = [False]

    def on_alarm(signum, frame):
        fired[0] = True
        raise CaseCpuLimit()

    try:
        old = signal.signal(signal.SIGVTALRM, on_alarm)
    except ValueError:          # not in the main thread: no alarm available
        return guarded(body, case)
    limit = max(CASE_CPU_S[0], cpu_s or 0.0)
    signal.setitimer(signal.ITIMER_VIRTUAL, limit, limit)
    try:
        try:
            res = guarded(body, case)
            if not fired[0]:
                return res
        except CaseCpuLimit:
            pass
        except BaseException:
            if not fired[0]:
                raise
    finally:
        signal.setitimer(signal.ITIMER_VIRTUAL, 0)
        signal.signal(signal.SIGVTALRM, old)
    CASE_CPU_S[0] = min(CASE_CPU_S[0], 8.0)
    FORCE_LINE_GUARD[0] = True
    try:
        return guarded(body, case)
    finally:
        FORCE_LINE_GUARD[0] = False


def hyp_settings(max_examples, stateful_steps=None, shrink=True):
    from hypothesis import settings, HealthCheck, Phase
    kw = dict(max_examples=max_examples, database=None, deadline=None, derandomize=False,
              report_multiple_bugs=False, print_blob=False,
              suppress_health_check=list(HealthCheck))
    if stateful_steps is not None:
        kw["stateful_step_count"] = stateful_steps
    if not shrink:
        kw["phases"] = [Phase.explicit, Phase.generate]
    return settings(**kw)


def hyp_run(ctx, strategy, body, max_examples, shrink_calls=None, salt=0, cpu_s=None):
    """Drive body(case) -> (nontrivial, classes[, sample]) over `strategy`.
    The first failure is shrunk within a bounded number of further executions; the smallest
    *really failing* case seen is what gets reported."""
    from hypothesis import given, seed
    if max_examples <= 0:
        return
    if shrink_calls is None:
        shrink_calls = 300 if ctx.tier == "quick" else 1500
    st = {"best": None, "after": 0}

    trace_dir = os.environ.get("VERIF_TRACE_DIR")

    def wrapped(case):
        if st["best"] is not None:
            st["after"] += 1
            if st["after"] > shrink_calls:
                fail("shrink budget exhausted")
        if trace_dir:      # debugging aid for hangs: the case in flight is on disk
            with open(os.path.join(trace_dir, "%s-%d.json" % (ctx.kind, os.getpid())), "w") as f:
                json.dump({"t": time.time(), "case": jsonable(case)}, f)
        try:
            res = run_case(body, case, cpu_s)
        except Violation as v:
            st["best"] = (jsonable(case), str(v))
            raise
        if st["best"] is None and res is not None:
            ctx.record(case, *res)

    test = seed(ctx.hseed * 1000003 + salt)(hyp_settings(max_examples)(given(strategy)(wrapped)))
    if getattr(ctx, "fuzz", None):
        fuzz_drive(ctx, test, st)
    try:
        test()
    except Violation:
        pass
    except Exception as e:  # Flaky etc. after a recorded failure are irrelevant
        if st["best"] is None:
            raise
    if st["best"] is not None:
        ctx.violation(st["best"][0], st["best"][1])


def machine_run(ctx, machine_cls, max_examples, steps, shrink_calls=None):
    """Run a RuleBasedStateMachine; the machine must keep self.trace (list of jsonable steps),
    call self.enter() at construction, and report nontriviality through self.finish()."""
    from hypothesis import seed
    from hypothesis.stateful import run_state_machine_as_test
    if max_examples <= 0:
        return
    if shrink_calls is None:
        shrink_calls = 300 if ctx.tier == "quick" else 1500
    st = {"best": None, "after": 0}
    machine_cls._ctx = ctx
    machine_cls._st = st
    machine_cls._shrink_calls = shrink_calls
    if getattr(ctx, "fuzz", None):
        from hypothesis.stateful import get_state_machine_test
        fuzz_drive(ctx, get_state_machine_test(machine_cls, settings=hyp_settings(max_examples, steps)), st)
    try:
        run_state_machine_as_test(seed(ctx.hseed)(machine_cls), settings=hyp_settings(max_examples, steps))
    except Violation:
        pass
    except Exception:
        if st["best"] is None:
            raise
    if st["best"] is not None:
        ctx.violation(st["best"][0], st["best"][1])


def fuzz_drive(ctx, test, st):
    """Coverage-guided drive (atheris/libFuzzer) of a Hypothesis test: libFuzzer mutates the byte string from
    which Hypothesis decodes its choices; the sub-check's body is the oracle.  Never returns: the process exits
    0 after `runs` executed cases, 77 on a violation (decoded case saved), 78 on a harness error."""
    fz = ctx.fuzz
    atheris = fz["atheris"]
    target = test.hypothesis.fuzz_one_input
    state = {"calls": 0}
    real_stderr = sys.stderr

    def dump(error=None, rc=0):
        res = ctx.result()
        res["error"] = error
        res["extra"] = dict(res.get("extra") or {}, fuzz_calls=state["calls"])
        res["wall_s"] = time.time() - fz["t0"]
        with open(fz["out"], "w") as f:
            json.dump(res, f)
        os._exit(rc)

    def one(data):
        state["calls"] += 1
        try:
            target(data)
        except Violation as v:
            if st["best"] is None:
                st["best"] = ({"note": "case not captured", "bytes": data.hex()}, str(v))
            ctx.violation(st["best"][0], st["best"][1])
            dump(None, 77)
        except BaseException as e:
            dump("fuzz target raised outside the oracle: " +
                 "".join(traceback.format_exception(type(e), e, e.__traceback__))[-3000:], 78)
        if ctx.evaluations >= fz["runs"] or state["calls"] >= 60 * fz["runs"] + 2000:
            dump(None, 0)

    corpus = os.path.join(fz["workdir"], "corpus")
    os.makedirs(corpus, exist_ok=True)
    argv = [sys.argv[0], "-seed=%d" % fz["seed"], "-runs=%d" % (80 * fz["runs"] + 4000), "-max_len=4096",
            "-len_control=0", "-print_final_stats=0", "-verbosity=0",
            "-artifact_prefix=" + os.path.join(fz["workdir"], "crash-"), corpus]
    atheris.Setup(argv, one)
    atheris.Fuzz()
    dump("libFuzzer returned before the case budget was reached", 0)


def _fuzz_shard(args):
    """Parent side of a fuzz:<kind> shard: fresh work directory, child process, read its result file."""
    import shutil
    import subprocess
    pid, modname, tier, seed, kind, shard, nshards, budget, known = args
    sub = kind.split(":", 1)[1]
    work = os.path.join(HOME, "work", "fuzz", "%s-%s-%d" % (pid, sub, shard))
    shutil.rmtree(work, ignore_errors=True)
    os.makedirs(work)
    out = os.path.join(work, "result.json")
    spec = {"pid": pid, "modname": modname, "tier": tier, "seed": seed, "kind": sub, "shard": shard,
            "nshards": nshards, "budget": budget, "known": known, "out": out, "workdir": work}
    with open(os.path.join(work, "args.json"), "w") as f:
        json.dump(spec, f)
    t0 = time.time()
    with open(os.path.join(work, "log.txt"), "w") as log:
        p = subprocess.run([sys.executable, "-W", "ignore", "-m", "vlib.fuzzproc", os.path.join(work, "args.json")],
                           stdout=log, stderr=log, cwd=CODE_HOME)
    if os.path.exists(out):
        res = json.load(open(out))
    else:
        tail = open(os.path.join(work, "log.txt")).read()[-1500:]
        res = Ctx(pid, tier, seed, sub, shard, nshards, budget, known).result()
        res["error"] = "fuzz child exited %d without a result: %s" % (p.returncode, tail)
    res["kind"] = kind
    res["shard"] = shard
    for v in res.get("violations", []):
        v["kind"] = sub
    if p.returncode not in (0, 77) and not res.get("error"):
        res["error"] = "fuzz child exited %d" % p.returncode
    res["wall_s"] = time.time() - t0
    if not res.get("violations") and not res.get("error"):
        shutil.rmtree(work, ignore_errors=True)
    return res


class MachineMixin:
    """Bookkeeping shared by the stateful checks."""
    _ctx = None
    _st = None
    _shrink_calls = 300

    def enter(self):
        self.trace = []
        self.nontrivial = False
        self.cls = set()
        st = self._st
        if st["best"] is not None:
            st["after"] += 1
            if st["after"] > self._shrink_calls:
                fail("shrink budget exhausted")

    def step(self, fn, *a):
        """Run one step of the machine under the exception policy."""
        import hypothesis.errors as he
        try:
            return fn(*a)
        except Violation as v:
            self._st["best"] = (jsonable({"steps": self.trace}), str(v))
            raise
        except he.HypothesisException:
            raise
        except Exception as e:
            who, where = exception_origin(e)
            if who == "iopt":
                msg = "unexpected %s raised inside iOpt at %s: %s" % (type(e).__name__, where, str(e)[:200])
                self._st["best"] = (jsonable({"steps": self.trace}), msg)
                raise Violation(msg)
            raise

    def finish(self):
        if self._st["best"] is None and self.trace:
            self._ctx.record({"steps": self.trace}, self.nontrivial, sorted(self.cls))


def _shard_entry(args):
    pid, modname, tier, seed, kind, shard, nshards, budget, known = args
    if kind.startswith("fuzz:"):
        try:
            return _fuzz_shard(args)
        except BaseException as e:
            res = Ctx(pid, tier, seed, kind, shard, nshards, budget, known).result()
            res["error"] = "".join(traceback.format_exception(type(e), e, e.__traceback__))[-4000:]
            res["wall_s"] = 0.0
            return res
    sys.setrecursionlimit(10000)
    t0 = time.time()
    ctx = Ctx(pid, tier, seed, kind, shard, nshards, budget, known)
    try:
        mod = importlib.import_module("props." + modname)
        fn = mod.SUBCHECKS[kind]
        # iOpt prints from Solve / listeners; keep shard stdout clean
        real = sys.stdout
        sys.stdout = io.StringIO()
        try:
            fn(ctx)
        finally:
            sys.stdout = real
        res = ctx.result()
        res["error"] = None
    except BaseException as e:  # harness failure in this shard
        res = ctx.result()
        res["error"] = "".join(traceback.format_exception(type(e), e, e.__traceback__))[-4000:]
    res["wall_s"] = time.time() - t0
    return res


def load_known(pid):
    out = []
    path = os.path.join(HOME, "known_findings.txt")
    if os.path.exists(path):
        for line in open(path):
            line = line.strip()
            if line.startswith("known:") and ("property=%s " % pid) in line + " ":
                rest = line[len("known:"):].strip()
                key = None
                for tok in rest.split():
                    if tok.startswith("key="):
                        key = tok[4:]
                out.append({"key": key, "text": rest})
    return out


def write_replay(pid, viol):
    os.makedirs(os.path.join(HOME, "replays"), exist_ok=True)
    body = {"property": pid, "kind": viol["kind"], "case": viol["case"], "message": viol["message"]}
    name = "%s-%s.json" % (pid, digest(body))
    path = os.path.join(HOME, "replays", name)
    with open(path, "w") as f:
        json.dump(body, f, indent=1, sort_keys=True)
    return os.path.join("replays", name)


def run_replay(pid, mod, path):
    body = json.load(open(path))
    real = sys.stdout
    sys.stdout = io.StringIO()
    try:
        try:
            # (under the per-case CPU alarm and its line-bounded re-run, like a generated case: a replay that hangs on
            # a changed tree must end in a verdict, not in the watchdog)
            run_case(lambda c: mod.replay(body["kind"], c), body["case"])
        finally:
            sys.stdout = real
    except Violation as v:
        return str(v)
    return None


def main(argv=None):
    ap = argparse.ArgumentParser()
    ap.add_argument("pid")
    ap.add_argument("--tier", default=os.environ.get("VERIF_TIER") or "quick", choices=["quick", "thorough"])
    ap.add_argument("--replay")
    ap.add_argument("--only", help="run only this sub-check (debugging)")
    ap.add_argument("--scale", type=float, default=float(os.environ.get("VERIF_SCALE", "1")),
                    help="multiply case budgets (debugging)")
    a = ap.parse_args(argv)
    pid = a.pid.upper()
    if pid not in PROPS:
        print("unknown property", pid)
        return 2
    try:
        seed = int(os.environ.get("VERIF_SEED", "1"))
    except ValueError:
        seed = 1
    seed = abs(seed) % (2 ** 31)
    t0 = time.time()
    try:
        mod = importlib.import_module("props." + PROPS[pid])
    except Exception:
        traceback.print_exc()
        print("HARNESS-ERROR property=%s cannot import check module" % pid)
        return 2

    if a.replay:
        try:
            msg = run_replay(pid, mod, a.replay)
        except Exception:
            traceback.print_exc()
            return 2
        if msg:
            print("VIOLATION property=%s replay=%s" % (pid, a.replay))
            print("  " + msg)
            return 1
        print("replay passes: property=%s %s" % (pid, a.replay))
        return 0

    known = load_known(pid)
    for k in known:
        print("KNOWN-FINDING: property=%s %s" % (pid, k["text"]))

    violations = []
    # 1. regression replays (seconds)
    nreg = 0
    for path in sorted(glob.glob(os.path.join(HOME, "replays", "regress", pid + "-*.json"))):
        nreg += 1
        try:
            msg = run_replay(pid, mod, path)
        except Exception:
            traceback.print_exc()
            print("HARNESS-ERROR property=%s regression replay %s crashed" % (pid, path))
            return 2
        if msg:
            violations.append((os.path.relpath(path, HOME), msg))

    # 2. generated / enumerated shards
    plan = list(mod.plan(a.tier))
    if a.tier == "thorough":
        # coverage-guided supplement (atheris/libFuzzer over the same generators and oracles)
        for fk, (fshards, fruns) in sorted(getattr(mod, "FUZZ", {}).items()):
            plan.append(("fuzz:" + fk, fshards, fruns))
    jobs = []
    for kind, nshards, budget in plan:
        if a.only and kind != a.only:
            continue
        budget = max(1, int(budget * a.scale))
        for s in range(nshards):
            jobs.append((pid, PROPS[pid], a.tier, seed, kind, s, nshards, budget, known))
    watchdog = getattr(mod, "WATCHDOG_S", {"quick": 1500, "thorough": 6 * 3600})[a.tier]
    results = []
    errors = []
    if jobs:
        ctxm = mp.get_context("fork")
        with ctxm.Pool(min(NPROC, len(jobs)), maxtasksperchild=1) as pool:
            it = pool.imap_unordered(_shard_entry, jobs, chunksize=1)
            for _ in jobs:
                left = watchdog - (time.time() - t0)
                try:
                    r = it.next(timeout=max(1.0, left))
                except mp.TimeoutError:
                    errors.append("watchdog: shards still running after %d s" % watchdog)
                    pool.terminate()
                    break
                results.append(r)
                if r.get("error"):
                    errors.append("[%s shard %d] %s" % (r["kind"], r["shard"], r["error"]))

    evaluations = sum(r["evaluations"] for r in results)
    nontrivial = set()
    classes = Counter()
    samples = []
    excluded = 0
    per_kind = {}
    exhaustive_flags = []
    extra = {}
    counted = 0
    for r in sorted(results, key=lambda r: (r["kind"], r["shard"])):
        nontrivial.update(r["kind"] + ":" + d for d in r["nontrivial"])
        classes.update(r["classes"])
        excluded += r["excluded"]
        pk = per_kind.setdefault(r["kind"], {"evaluations": 0, "nontrivial": 0, "wall_s": 0.0})
        pk["evaluations"] += r["evaluations"]
        pk["nontrivial"] += len(r["nontrivial"]) + r.get("nontrivial_counted", 0)
        counted += r.get("nontrivial_counted", 0)
        pk["wall_s"] = round(max(pk["wall_s"], r["wall_s"]), 1)
        if r["exhaustive"] is not None:
            exhaustive_flags.append(bool(r["exhaustive"]))
        for k, v in (r.get("extra") or {}).items():
            d = extra.setdefault(r["kind"], {})
            if isinstance(v, (int, float)) and not isinstance(v, bool):
                d[k] = max(d.get(k, v), v) if k.startswith("max") else d.get(k, 0) + v
            else:
                d[k] = v
        for s in r["samples"]:
            if sum(1 for x in samples if x["kind"] == r["kind"]) < 2 and len(samples) < 8:
                samples.append({"kind": r["kind"], "case": s})
        for v in r["violations"]:
            violations.append((write_replay(pid, v), v["message"]))

    status = 0
    seen = set()
    for path, msg in violations:
        key = msg[:120]
        if key in seen:
            continue
        seen.add(key)
        print("VIOLATION property=%s replay=%s" % (pid, path))
        print("  " + msg.replace("\n", "\n  ")[:1500])
        status = 1

    floor = getattr(mod, "NONTRIVIAL_FLOOR", {"quick": 2, "thorough": 2})[a.tier]
    if status == 0 and not errors and not a.only and a.scale >= 1 and len(nontrivial) + counted < floor:
        errors.append("generator check: only %d non-trivial cases (floor %d)" % (len(nontrivial) + counted, floor))

    cov = {
        "evaluations": int(evaluations + nreg),
        "distinct_nontrivial": int(len(nontrivial) + counted),
        "rule": mod.RULE,
        "samples": samples if samples else [{"note": "no sample recorded"}],
        "classes": dict(sorted(classes.items())),
        "per_subcheck": per_kind,
        "regression_replays": nreg,
        "excluded_known": excluded,
    }
    if exhaustive_flags:
        cov["exhaustive"] = all(exhaustive_flags) and not errors
        cov["exhaustive_scope"] = getattr(mod, "EXHAUSTIVE_SCOPE", {}).get(a.tier, "")
    if extra:
        cov["extra"] = extra
    ev = {
        "property_id": pid, "tier": a.tier, "seed": seed, "level": mod.LEVEL,
        "coverage": cov, "assumptions": list(mod.ASSUMPTIONS), "wall_s": round(time.time() - t0, 2),
        "violations": len(seen), "harness_errors": len(errors),
        "repo": REPO,
    }
    os.makedirs(os.path.join(HOME, "evidence"), exist_ok=True)
    with open(os.path.join(HOME, "evidence", pid + ".json"), "w") as f:
        json.dump(ev, f, indent=1, sort_keys=True)
        f.write("\n")

    if status == 1:
        return 1
    if errors:
        for e in errors:
            print("HARNESS-ERROR property=%s %s" % (pid, e))
        return 2
    print("OK property=%s tier=%s seed=%d evaluations=%d nontrivial=%d wall=%.1fs" %
          (pid, a.tier, seed, evaluations + nreg, len(nontrivial) + counted, time.time() - t0))
    return 0


