"""Invariants of the accumulated search information (C06; reused by C12 and C16)."""
from collections import Counter

from vlib.runner import fail


def fresh_evolvent(run):
    from iOpt.evolvent.evolvent import Evolvent
    return Evolvent(run.recipe["lower"], run.recipe["upper"], run.n, run.density())


def check_search_data(run, log=None, items=None, who="", evolvent=None):
    """Traverse run.solver.searchData and compare with the evaluation log.
    log: list of (event, point-tuple, value) that must be exactly the interior record (default: all).
    items: the SearchDataItem objects delivered to the listener (joined by identity), optional."""
    sd = run.solver.searchData
    n = run.n
    log = run.problem.log if log is None else log
    seq = []
    for it in sd:
        seq.append(it)
        if len(seq) > len(log) + 10:
            fail("%straversal of the search information does not end (more than %d items for %d trials)" %
                 (who, len(seq), len(log)))
    if len(log) == 0:
        if seq:
            fail("%ssearch information holds %d items before any trial" % (who, len(seq)))
        return seq
    if len(seq) != len(log) + 2:
        fail("%straversal yields %d items for %d trials (expected trials + the two end points)" %
             (who, len(seq), len(log)))
    if sd.GetCount() != len(log) + 2:
        fail("%sGetCount()=%r with %d trials" % (who, sd.GetCount(), len(log)))
    if seq[0].GetX() != 0.0 or seq[-1].GetX() != 1.0:
        fail("%straversal runs from x=%r to x=%r instead of 0 to 1" % (who, seq[0].GetX(), seq[-1].GetX()))
    if seq[0].GetLeft() is not None or seq[-1].GetRight() is not None:
        fail("%send items have outward neighbour links" % who)
    ev = evolvent or fresh_evolvent(run)
    for i, it in enumerate(seq):
        x = it.GetX()
        if i > 0:
            px = seq[i - 1].GetX()
            if not (px < x):
                fail("%scoordinates not strictly increasing: %r then %r" % (who, px, x))
            if it.GetLeft() is not seq[i - 1] or seq[i - 1].GetRight() is not it:
                fail("%sneighbour links inconsistent at x=%r" % (who, x))
            want = pow(x - px, 1.0 / n)
            if abs(it.delta - want) > 1e-12 * want:
                fail("%sstored interval length %r at x=%r differs from (x-x_left)^(1/N)=%r" %
                     (who, it.delta, x, want))
        img = tuple(float(v) for v in ev.GetImage(x))
        got = tuple(float(v) for v in it.GetY().floatVariables)
        if img != got:
            fail("%sstored point %r at x=%r is not the evolvent image %r" % (who, got, x, img))
    interior = seq[1:-1]
    have = Counter()
    for it in interior:
        z = float(it.GetZ())
        v = float(it.functionValues[0].value)
        if z != v:
            fail("%sitem at x=%r: GetZ()=%r but its value holder says %r" % (who, it.GetX(), z, v))
        have[(tuple(float(c) for c in it.GetY().floatVariables), z)] += 1
    want = Counter((y, val) for _, y, val in log)
    if have != want:
        miss = list((want - have).items())[:2]
        extra = list((have - want).items())[:2]
        fail("%sstored (point, value) records differ from the evaluation log: missing %r, unexpected %r" %
             (who, miss, extra))
    if items is not None:
        if set(map(id, items)) != set(map(id, interior)) or len(items) != len(interior):
            fail("%sthe stored interior items are not exactly the trials delivered to the listener" % who)
        for it, (_, y, val) in zip(items, log):
            if float(it.GetZ()) != val or tuple(float(c) for c in it.GetY().floatVariables) != y:
                fail("%strial delivered to the listener (x=%r, z=%r) does not match evaluation (%r, %r)" %
                     (who, it.GetX(), it.GetZ(), y, val))
    return seq


def check_reported_best(point, value, log, problem, who=""):
    """The reported best is one of the evaluated points, with its value, and nothing evaluated is lower."""
    if not log:
        fail("%sno evaluation was made" % who)
    match = [val for _, y, val in log if y == point]
    if not match:
        fail("%sreported best point %r is not one of the %d evaluated points" % (who, point, len(log)))
    if value not in match:
        fail("%sreported best value %r differs from the objective value(s) %r logged at its point" %
             (who, value, match[:3]))
    re = problem.value_at(point)
    if re != value:
        fail("%sreported best value %r differs from the objective %r at the reported point" % (who, value, re))
    lo = min(val for _, _, val in log)
    if lo < value:
        fail("%sreported best value %r but a trial with smaller value %r was evaluated" % (who, value, lo))
