"""Deterministic non-termination guard: bounds the number of Python lines executed inside one call."""
import sys


class StepLimit(Exception):
    pass


def bounded_call(limit, fn, *args):
    count = [0]

    def tracer(frame, event, arg):
        if event == "line":
            count[0] += 1
            if count[0] > limit:
                raise StepLimit("more than %d lines executed" % limit)
        return tracer

    old = sys.gettrace()
    sys.settrace(tracer)
    try:
        return fn(*args)
    finally:
        sys.settrace(old)
