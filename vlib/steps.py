"""Deterministic non-termination guard: bounds the number of Python lines executed inside one call."""
import sys


class StepLimit(Exception):
    pass


class StepInterrupt(BaseException):
    """Raised from outside (timer) into a call that has used up its line budget."""


MAX_TICKS = 3000       # 60 s of interruptions every 20 ms


def bounded_call(limit, fn, *args):
    count = [0]

    def tracer(frame, event, arg):
        if event == "line":
            count[0] += 1
            if count[0] > limit:
                raise StepLimit("more than %d lines executed" % limit)
        return tracer

    old = sys.gettrace()
    sys.settrace(tracer)
    try:
        return fn(*args)
    finally:
        sys.settrace(old)


def line_budget(iters_limit, trials_now=0):
    """Generous bound on the Python lines one solver call executes: about 2,000 per trial, plus a full
    recalculation (O(n)) per trial, for n up to the budget (measured: 1,300-1,900 lines per trial)."""
    n = max(int(iters_limit), int(trials_now)) + 10
    return 300_000 + 6_000 * n + 60 * n * n


def guarded_call(limit, fn, *args):
    """(result, exceeded): like bounded_call, but built for code that may catch what the guard raises (Process.Solve
    catches BaseException; a changed tree may catch and retry in a loop).  A trace function that raises is switched
    off by the interpreter, so the trace function only counts; once the limit is passed the call is interrupted from
    outside, by an interval timer whose handler raises StepInterrupt (a BaseException) again and again until the
    call is left - at most MAX_TICKS times, after which the guard gives up and the shard's watchdog decides."""
    import signal
    import threading
    state = {"count": 0, "hit": False, "ticks": 0}
    can_signal = threading.current_thread() is threading.main_thread()

    def on_tick(signum, frame):
        state["ticks"] += 1
        if state["ticks"] > MAX_TICKS:
            signal.setitimer(signal.ITIMER_REAL, 0)
            return
        raise StepInterrupt("more than %d lines executed" % limit)

    def tracer(frame, event, arg):
        if event == "line":
            state["count"] += 1
            if state["count"] > limit and not state["hit"]:
                state["hit"] = True
                if not can_signal:
                    raise StepLimit("more than %d lines executed" % limit)
                signal.signal(signal.SIGALRM, on_tick)
                signal.setitimer(signal.ITIMER_REAL, 0.002, 0.02)
        return tracer

    old = sys.gettrace()
    old_handler = signal.getsignal(signal.SIGALRM) if can_signal else None
    res = None
    try:
        try:
            sys.settrace(tracer)
            res = fn(*args)
        finally:
            sys.settrace(old)
            if can_signal:
                signal.setitimer(signal.ITIMER_REAL, 0)
                signal.signal(signal.SIGALRM, old_handler if old_handler is not None else signal.SIG_DFL)
    except (StepLimit, StepInterrupt):
        res = None
    return res, state["hit"]
