"""Deterministic non-termination guard: bounds the number of Python lines executed inside one call."""
import sys


class StepLimit(Exception):
    pass


def bounded_call(limit, fn, *args):
    count = [0]

    def tracer(frame, event, arg):
        if event == "line":
            count[0] += 1
            if count[0] > limit:
                raise StepLimit("more than %d lines executed" % limit)
        return tracer

    old = sys.gettrace()
    sys.settrace(tracer)
    try:
        return fn(*args)
    finally:
        sys.settrace(old)


def line_budget(iters_limit, trials_now=0):
    """Generous bound on the Python lines one solver call executes: about 2,000 per trial, plus a full
    recalculation (O(n)) per trial, for n up to the budget (measured: 1,300-1,900 lines per trial)."""
    n = max(int(iters_limit), int(trials_now)) + 10
    return 300_000 + 6_000 * n + 60 * n * n


def guarded_call(limit, fn, *args):
    """(result, exceeded): like bounded_call, but also reports a limit that was hit and then swallowed by the code
    under test (Process.Solve catches BaseException)."""
    state = {"count": 0, "hit": False}

    def tracer(frame, event, arg):
        if event == "line":
            state["count"] += 1
            if state["count"] > limit:
                state["hit"] = True
                raise StepLimit("more than %d lines executed" % limit)
        return tracer

    old = sys.gettrace()
    sys.settrace(tracer)
    try:
        try:
            res = fn(*args)
        except StepLimit:
            res = None
    finally:
        sys.settrace(old)
    return res, state["hit"]
