"""Objectives as data (they shrink and replay) and the logging Problem wrapper.

An objective is a dict {"family": name, ...parameters}; it is evaluated in normalised coordinates
u = (y - lower) / (upper - lower).  For the families in EXACT both the exact global minimum over the
unit box and an upper bound of the Lipschitz constant (Euclidean norm, unit box) are known.
"""
import math

import numpy as np

from iOpt.problem import Problem
from iOpt.trial import FunctionValue, Point

EXACT = ("cones", "absum", "linear", "bowl", "sines", "pwl1")
# "needle" (not drawn by default): zero except for a cone-shaped well of half-width w and depth h around c
ROUGH = ("const", "steps", "quantised")


def evaluate(obj, u):
    """Value at the normalised point u.  An optional "offset" is added to the family's value (objectives whose
    level is large compared with their variation)."""
    off = obj.get("offset")
    if off:
        return _evaluate(obj, u) + off
    return _evaluate(obj, u)


def _evaluate(obj, u):
    fam = obj["family"]
    if fam == "cones":
        best = None
        for c, s, p in zip(obj["c"], obj["s"], obj["p"]):
            d = math.sqrt(sum((ui - pi) * (ui - pi) for ui, pi in zip(u, p)))
            v = c + s * d
            if best is None or v < best:
                best = v
        return best
    if fam == "absum":
        return obj["c"] + sum(a * abs(ui - pi) for a, ui, pi in zip(obj["a"], u, obj["p"]))
    if fam == "linear":
        return sum(c * ui for c, ui in zip(obj["c"], u))
    if fam == "bowl":
        return obj["scale"] * sum((ui - pi) * (ui - pi) for ui, pi in zip(u, obj["p"]))
    if fam == "sines":
        return sum(a * math.sin(w * ui + ph) for a, w, ph, ui in zip(obj["a"], obj["w"], obj["phi"], u))
    if fam == "pwl1":
        t, v = obj["t"], obj["v"]
        x = u[0]
        if x <= t[0]:
            return v[0]
        for i in range(1, len(t)):
            if x <= t[i]:
                lam = (x - t[i - 1]) / (t[i] - t[i - 1])
                return v[i - 1] + lam * (v[i] - v[i - 1])
        return v[-1]
    if fam == "needle":
        d = math.sqrt(sum((ui - ci) * (ui - ci) for ui, ci in zip(u, obj["c"])))
        return -obj["h"] * max(0.0, 1.0 - d / obj["w"])
    if fam == "const":
        return obj["c"]
    if fam == "steps":
        return sum(h * math.floor(ui * k) for h, k, ui in zip(obj["h"], obj["k"], u))
    if fam == "quantised":
        g = evaluate(obj["base"], u)
        return math.floor(g * obj["q"]) / obj["q"]
    raise ValueError("unknown family %r" % fam)


def exact_min(obj):
    return _exact_min(obj) + (obj.get("offset") or 0.0)


def _exact_min(obj):
    fam = obj["family"]
    if fam == "cones":
        return min(obj["c"])
    if fam == "absum":
        return obj["c"]
    if fam == "linear":
        return sum(min(0.0, c) for c in obj["c"])
    if fam == "bowl":
        return obj["scale"] * sum((min(max(p, 0.0), 1.0) - p) ** 2 for p in obj["p"])
    if fam == "sines":
        tot = 0.0
        for a, w, ph in zip(obj["a"], obj["w"], obj["phi"]):
            cands = [a * math.sin(ph), a * math.sin(w + ph)]
            if w != 0:
                lo, hi = sorted((ph, w + ph))
                k = math.ceil((lo - math.pi / 2) / math.pi)
                while math.pi / 2 + k * math.pi <= hi:
                    cands.append(a * math.sin(math.pi / 2 + k * math.pi))
                    k += 1
            tot += min(cands)
        return tot
    if fam == "pwl1":
        return min(obj["v"])
    if fam == "needle":
        return -obj["h"]
    raise ValueError("no exact minimum for %r" % fam)


def lipschitz(obj):
    fam = obj["family"]
    if fam == "cones":
        return max(obj["s"])
    if fam == "absum":
        return math.hypot(*obj["a"])          # hypot: no underflow for coefficients like 1e-170
    if fam == "linear":
        return math.hypot(*obj["c"])
    if fam == "bowl":
        return 2.0 * obj["scale"] * math.hypot(*[max(abs(p), abs(1.0 - p)) for p in obj["p"]])
    if fam == "sines":
        return math.hypot(*[a * w for a, w in zip(obj["a"], obj["w"])])
    if fam == "pwl1":
        t, v = obj["t"], obj["v"]
        return max(abs(v[i] - v[i - 1]) / (t[i] - t[i - 1]) for i in range(1, len(t)))
    if fam == "needle":
        return obj["h"] / obj["w"]
    raise ValueError("no Lipschitz constant for %r" % fam)


def scaled(obj, factor):
    """The same objective multiplied by factor > 0 (used to build the 'unconditional' class of C01)."""
    o = dict(obj)
    fam = obj["family"]
    if fam == "cones":
        o["c"] = [c * factor for c in obj["c"]]
        o["s"] = [s * factor for s in obj["s"]]
    elif fam == "absum":
        o["a"] = [a * factor for a in obj["a"]]
        o["c"] = obj["c"] * factor
    elif fam == "linear":
        o["c"] = [c * factor for c in obj["c"]]
    elif fam == "bowl":
        o["scale"] = obj["scale"] * factor
    elif fam == "sines":
        o["a"] = [a * factor for a in obj["a"]]
    elif fam == "pwl1":
        o["v"] = [v * factor for v in obj["v"]]
    elif fam == "needle":
        o["h"] = obj["h"] * factor
    else:
        raise ValueError(fam)
    return o


class ObjectiveFailure(BaseException):
    """Default injected failure (BaseException on purpose: see C16)."""


class LoggedProblem(Problem):
    """A Problem whose every Calculate call is logged: (event number, copy of the point, value)."""

    def __init__(self, n, lower, upper, obj, clock=None, style=None):
        super().__init__()
        # style: how a user-written problem may legitimately behave.  holder "same": fill the supplied value
        # holder and return it (what every shipped problem does); "fresh": leave the supplied holder alone and
        # return a new FunctionValue (the signature only promises "-> FunctionValue").  valtype: Python float or
        # numpy.float64 values.
        self.style = dict(style or {})
        self.numberOfFloatVariables = n
        if not self.style.get("no_dimension"):
            self.dimension = n       # not declared by iOpt.problem.Problem; every shipped problem sets it
        self.numberOfDisreteVariables = 0
        self.numberOfObjectives = 1
        self.numberOfConstraints = 0
        self.floatVariableNames = np.array(["x%d" % i for i in range(n)], dtype=str)
        self.lowerBoundOfFloatVariables = np.array(lower, dtype=np.double)
        self.upperBoundOfFloatVariables = np.array(upper, dtype=np.double)
        bt = self.style.get("bounds")
        if bt and all(float(v).is_integer() for v in list(lower) + list(upper)):
            # integer-valued bounds written the way several shipped problems write them (GKLS: dimension * [-1])
            if bt == "intlist":
                self.lowerBoundOfFloatVariables = [int(v) for v in lower]
                self.upperBoundOfFloatVariables = [int(v) for v in upper]
            else:
                self.lowerBoundOfFloatVariables = np.array([int(v) for v in lower])
                self.upperBoundOfFloatVariables = np.array([int(v) for v in upper])
        self._lo = [float(v) for v in lower]
        self._w = [float(b) - float(a) for a, b in zip(lower, upper)]
        self.obj = obj
        self.log = []          # (event, tuple(point), value)
        self.calls = 0         # attempted evaluations (including a failing one)
        self.fail_at = None    # 1-based index of the call that raises
        self.fail_exc = ObjectiveFailure
        self.fail_from = False  # True: every evaluation from fail_at on fails (the failure is not transient)
        self.fail_args = None  # None: one message argument; otherwise the argument tuple (may be empty)
        self.max_calls = None  # runaway guard: beyond it a flag is set and every call raises
        self.runaway = False
        self.clock = clock if clock is not None else [0]

    def value_at(self, y):
        u = [(float(yi) - lo) / w for yi, lo, w in zip(y, self._lo, self._w)]
        return evaluate(self.obj, u)

    def Calculate(self, point: Point, functionValue: FunctionValue) -> FunctionValue:
        self.calls += 1
        self.clock[0] += 1
        if self.max_calls is not None and self.calls > self.max_calls:
            self.runaway = True
            raise ObjectiveFailure("evaluation budget guard")
        if self.fail_at is not None and (self.calls == self.fail_at or (self.fail_from and self.calls > self.fail_at)):
            if self.fail_args is not None:
                raise self.fail_exc(*self.fail_args)
            raise self.fail_exc("injected failure at evaluation %d" % self.calls)
        y = tuple(float(v) for v in point.floatVariables)
        nf = self.style.get("nonfinite")
        if nf and (self.calls == nf["at"] or (nf.get("from") and self.calls >= nf["at"])):
            # the objective has no finite value here (division by zero, log of a negative number, overflow ...): it
            # hands back NaN or an infinity instead of raising; not logged, it is not a usable evaluation
            bad = {"nan": float("nan"), "inf": float("inf"), "-inf": float("-inf")}[nf["value"]]
            functionValue.value = np.float64(bad) if self.style.get("valtype") == "np" else bad
            return functionValue
        val = self.value_at(y)
        self.log.append((self.clock[0], y, val))
        if self.style.get("valtype") == "np":
            val = np.float64(val)
        if self.style.get("holder") == "fresh":
            out = FunctionValue(functionValue.type, functionValue.functionID)
            out.value = val
            return out
        functionValue.value = val
        return functionValue


class LoggedShipped(Problem):
    """Logging proxy around a shipped benchmark problem (same metadata, every Calculate logged)."""

    def __init__(self, inner, clock=None):
        super().__init__()
        self.inner = inner
        for k in ("numberOfFloatVariables", "numberOfDisreteVariables", "numberOfObjectives", "numberOfConstraints",
                  "floatVariableNames", "discreteVariableNames", "lowerBoundOfFloatVariables",
                  "upperBoundOfFloatVariables", "discreteVariableValues", "knownOptimum"):
            setattr(self, k, getattr(inner, k))
        self.dimension = getattr(inner, "dimension", inner.numberOfFloatVariables)
        self.log = []
        self.calls = 0
        self.fail_at = None
        self.fail_exc = ObjectiveFailure
        self.fail_args = None  # None: one message argument; otherwise the argument tuple (may be empty)
        self.max_calls = None
        self.runaway = False
        self.clock = clock if clock is not None else [0]

    def value_at(self, y):
        fv = FunctionValue()
        return float(self.inner.Calculate(Point(np.array(y, dtype=np.double), []), fv).value)

    def Calculate(self, point, functionValue):
        self.calls += 1
        self.clock[0] += 1
        if self.fail_at is not None and self.calls == self.fail_at:
            if self.fail_args is not None:
                raise self.fail_exc(*self.fail_args)
            raise self.fail_exc("injected failure at evaluation %d" % self.calls)
        y = tuple(float(v) for v in point.floatVariables)
        out = self.inner.Calculate(point, functionValue)
        self.log.append((self.clock[0], y, float(out.value)))
        return out


def make_shipped(name, arg):
    if name == "hill":
        from iOpt.problems.hill import Hill
        return Hill(arg)
    if name == "shekel":
        from iOpt.problems.shekel import Shekel
        return Shekel(arg)
    if name == "rastrigin":
        from iOpt.problems.rastrigin import Rastrigin
        return Rastrigin(arg)
    if name == "xsquared":
        from iOpt.problems.xsquared import XSquared
        return XSquared(arg)
    if name == "gkls":
        from iOpt.problems.GKLS import GKLS
        return GKLS(arg[0], arg[1])
    if name == "shekel4":
        from iOpt.problems.shekel4 import Shekel4
        return Shekel4(arg)
    if name == "grishagin":
        from iOpt.problems.grishagin import Grishagin
        return Grishagin(arg)
    raise ValueError(name)
