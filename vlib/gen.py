"""Hypothesis strategies for boxes, solver parameters and objectives (DESIGN.md section 2.3)."""
import math

from hypothesis import strategies as st

from vlib import objectives as ob


def logfloat(lo_exp, hi_exp):
    return st.floats(lo_exp, hi_exp, allow_nan=False).map(lambda e: float(10.0 ** e))


unit01 = st.one_of(st.sampled_from([0.0, 1.0, 0.5]), st.floats(0.0, 1.0, allow_nan=False))


@st.composite
def boxes(draw, n, simple_weight=True):
    """lower < upper, width in [1e-3, 1e3], |bounds| <= 1e3 and <= 1e5 * width."""
    kind = draw(st.sampled_from(["unit", "sym", "general", "general", "general"]))
    lo, hi = [], []
    for _ in range(n):
        if kind == "unit":
            lo.append(0.0)
            hi.append(1.0)
        elif kind == "sym":
            a = draw(st.sampled_from([0.5, 1.0, 2.2, 10.0]))
            lo.append(-a)
            hi.append(a)
        else:
            w = draw(logfloat(-3, 3))
            b = min(1e3, 9e4 * w)
            c = draw(st.floats(-b, b, allow_nan=False))
            lo.append(float(c - w / 2))
            hi.append(float(c + w / 2))
    return {"lower": lo, "upper": hi}


def eps_min(n, m):
    if n == 1:
        return 1e-6
    return max(2.0 ** (1 - m), 10.0 ** (-12.0 / n))


# minimal eps that keeps one run affordable (DESIGN 1: cost table), used where many runs are needed
CHEAP_EPS = {1: 1e-5, 2: 3e-3, 3: 0.03, 4: 0.05, 5: 0.1}


@st.composite
def eps_values(draw, n, m, cheap=True, upto=None):
    lo = max(eps_min(n, m), CHEAP_EPS[n] if cheap else 0.0)
    if draw(st.integers(0, 9)) == 0:
        # tie class: eps equal to a Hoelder length the search really produces.  The first subdivided
        # interval always has x-length 1/2, later ones are dyadic while no slope shift occurs, and the
        # stored length is pow(dx, 1/N): drawing eps from the same expression makes D == eps reachable.
        j = draw(st.sampled_from([1, 1, 1, 2, 2, 3, 4, 6]))
        e = pow(2.0 ** -j, 1.0 / n)
        if e >= eps_min(n, m):
            return float(e)
    if upto is None:
        # mostly small eps (long runs), sometimes up to 2.0 (eps >= 1 is a stated edge class)
        upto = draw(st.sampled_from([2.0, 0.1, 0.02, 0.02]))
    upto = max(upto, lo * 1.5)
    return draw(st.floats(math.log10(lo), math.log10(upto), allow_nan=False).map(lambda e: float(10.0 ** e)))


r_values = st.one_of(st.sampled_from([2.0, 3.0, 1.5, 4.0, 1.1]), st.floats(1.01, 16.0, allow_nan=False))


def vec(n, elem):
    return st.lists(elem, min_size=n, max_size=n)


@st.composite
def objective(draw, n, families):
    fam = draw(st.sampled_from(list(families)))
    amp = draw(st.one_of(st.just(1.0), logfloat(-3, 3)))
    if fam == "cones":
        k = draw(st.integers(1, 4))
        return {"family": "cones",
                "c": [amp * draw(st.floats(-10, 10, allow_nan=False)) for _ in range(k)],
                "s": [amp * draw(st.floats(0.05, 20, allow_nan=False)) for _ in range(k)],
                "p": [draw(vec(n, unit01)) for _ in range(k)]}
    if fam == "absum":
        return {"family": "absum", "a": [amp * a for a in draw(vec(n, st.floats(0, 10, allow_nan=False)))],
                "p": draw(vec(n, unit01)), "c": amp * draw(st.floats(-10, 10, allow_nan=False))}
    if fam == "linear":
        return {"family": "linear", "c": [amp * c for c in draw(vec(n, st.floats(-10, 10, allow_nan=False)))]}
    if fam == "bowl":
        return {"family": "bowl", "scale": amp * draw(st.floats(0.1, 10, allow_nan=False)),
                "p": draw(vec(n, st.one_of(unit01, st.floats(-1.5, 2.5, allow_nan=False))))}
    if fam == "sines":
        return {"family": "sines", "a": [amp * a for a in draw(vec(n, st.floats(-5, 5, allow_nan=False)))],
                "w": draw(vec(n, st.floats(0, 25, allow_nan=False))),
                "phi": draw(vec(n, st.floats(-3.2, 3.2, allow_nan=False)))}
    if fam == "pwl1":
        k = draw(st.integers(1, 7))
        cuts = sorted(set(draw(st.lists(st.integers(1, 63), min_size=k, max_size=k))))
        t = [0.0] + [c / 64.0 for c in cuts] + [1.0]
        return {"family": "pwl1", "t": t, "v": [amp * draw(st.floats(-10, 10, allow_nan=False)) for _ in t]}
    if fam == "const":
        return {"family": "const", "c": amp * draw(st.floats(-10, 10, allow_nan=False))}
    if fam == "steps":
        return {"family": "steps", "h": [amp * h for h in draw(vec(n, st.floats(-3, 3, allow_nan=False)))],
                "k": draw(vec(n, st.integers(1, 6)))}
    if fam == "quantised":
        base = draw(objective(n, ("cones", "sines", "linear")))
        return {"family": "quantised", "base": base, "q": draw(st.sampled_from([1.0, 2.0, 4.0, 0.5, 10.0]))}
    raise ValueError(fam)


def _all_finite(v):
    import math
    if isinstance(v, dict):
        return all(_all_finite(x) for x in v.values())
    if isinstance(v, (list, tuple)):
        return all(_all_finite(x) for x in v)
    if isinstance(v, float):
        return math.isfinite(v)
    return True


def families_for(n, exact_only=False, rough=True):
    fams = [f for f in ob.EXACT if (f != "pwl1" or n == 1)]
    if not exact_only and rough:
        fams += list(ob.ROUGH)
    return fams


@st.composite
def problem_recipe(draw, dims=(1, 2, 3, 4, 5), exact_only=False, families=None, densities=(10,), styles=False,
                   offsets=False, huge=False):
    n = draw(st.sampled_from(list(dims)))
    fams = families if families is not None else families_for(n, exact_only)
    fams = [f for f in fams if (f != "pwl1" or n == 1)]
    box = draw(boxes(n))
    rec = {"n": n, "lower": box["lower"], "upper": box["upper"],
           "obj": draw(objective(n, fams)), "density": draw(st.sampled_from(list(densities)))}
    if huge and rec["obj"]["family"] in ob.EXACT and draw(st.integers(0, 15)) == 3:
        # finite values of enormous magnitude (a penalty scale, physical units): the largest |value| over the box is
        # 1e150..1e305, so that squares of values and of slopes overflow while every value and difference is finite
        import math
        u0 = [0.5] * n
        bound = abs(ob.evaluate(rec["obj"], u0)) + ob.lipschitz(rec["obj"]) * math.sqrt(n) / 2.0
        if 1e-100 < bound < 1e100:
            big = ob.scaled(rec["obj"], float(10.0 ** draw(st.integers(150, 305))) / bound)
            # (an objective whose parameters are large but cancel - amplitude 1e10 at frequency 1e-38 - cannot be scaled
            # that far: every parameter and the values at the centre and the corners must stay finite)
            probes = [u0, [0.0] * n, [1.0] * n, [0.0, 1.0][:n] + [1.0] * max(0, n - 2)]
            if _all_finite(big) and all(abs(ob.evaluate(big, u)) < 1e306 for u in probes):
                rec["obj"] = big
                rec["huge"] = True
    if offsets and not rec.get("huge") and draw(st.integers(0, 3)) == 0:
        # a level that is large compared with the variation of the objective (either sign)
        rec["obj"] = dict(rec["obj"], offset=draw(st.sampled_from([-1.0, 1.0])) * float(10.0 ** draw(st.integers(2, 7))))
    if styles:
        # how the user-written problem hands its value back (see LoggedProblem): mostly the shipped convention
        style = {"holder": draw(st.sampled_from(["same", "same", "same", "fresh"])),
                 "valtype": draw(st.sampled_from(["float", "float", "np"]))}
        if style != {"holder": "same", "valtype": "float"}:
            rec["style"] = style
    return rec


@st.composite
def solver_params(draw, n, m, iters, cheap=True):
    p = {"r": draw(r_values), "eps": draw(eps_values(n, m, cheap)), "itersLimit": draw(iters)}
    how = draw(st.sampled_from(["ctor", "ctor", "ctor", "assign", "rebound", "assign+rebound"]))
    if "assign" in how:
        p["assign"] = True       # fields assigned after the SolverParameters object was built
    if "rebound" in how:
        p["rebound"] = True      # solver.evolvent.SetBounds(same box) after the Solver was built
    return p


@st.composite
def int_box_recipe(draw, dims=(2, 3, 4, 5), densities=(10,), families=None):
    """A problem on an integer-valued box whose bounds are handed to the solver as Python int lists or as an
    integer array (sums lower+upper odd or even, sides not powers of two included)."""
    rec = draw(problem_recipe(dims=dims, densities=densities, families=families))
    lo = [float(draw(st.integers(-6, 5))) for _ in range(rec["n"])]
    hi = [a + float(draw(st.integers(1, 7))) for a in lo]
    rec = dict(rec, lower=lo, upper=hi)
    rec["style"] = dict(rec.get("style") or {}, bounds=draw(st.sampled_from(["intlist", "intarray"])))
    return rec


@st.composite
def start_points(draw, recipe, outside=False):
    """A start point (SolverParameters.startPoint), or None in most cases; inside the box, or - with outside=True -
    possibly beyond it in some coordinates (an unconstrained minimiser passed as a hint, a solution of a wider box)."""
    if draw(st.integers(0, 4)) > 0:
        return None
    u = [draw(unit01) for _ in recipe["lower"]]
    near = (recipe.get("obj") or {}).get("p")
    near = near[0] if (near and isinstance(near[0], list)) else near
    if near is not None and len(near) == len(u) and draw(st.booleans()):
        # a good initial guess: (next to) a minimiser of the generated objective, so that a start point that is
        # honoured would be the best trial for a while
        u = [min(1.0, max(0.0, float(v))) for v in near]
    if outside and draw(st.booleans()):
        k = draw(st.integers(0, len(u) - 1))
        u[k] = draw(st.sampled_from([-0.4, 1.6, -3.0, 1.0000001, 2.0]))
    return [a + t * (b - a) for a, b, t in zip(recipe["lower"], recipe["upper"], u)]


@st.composite
def resolution_case(draw):
    """A run that is pushed to the resolution of the curve coordinate: eps far below the spacing of doubles, a
    kinked 1-D objective (or a 2-D one on a coarse evolvent), enough budget.  The method then refuses the
    degenerate interval ('x is outside of interval'); Solve swallows that and returns."""
    n = draw(st.sampled_from([1, 1, 1, 2]))
    recipe = draw(problem_recipe(dims=(n,), families=("cones", "absum", "pwl1", "linear"),
                                 densities=(10,) if n == 1 else (2, 3, 4)))
    params = {"r": draw(r_values), "eps": float(10.0 ** -draw(st.integers(17, 300))),
              "itersLimit": draw(st.sampled_from([120, 200, 400]))}
    return recipe, params


@st.composite
def compositions(draw, total, max_parts=6):
    """A composition of `total` into positive batch sizes."""
    parts = []
    left = total
    while left > 0 and len(parts) < max_parts - 1:
        k = draw(st.integers(1, left))
        parts.append(k)
        left -= k
    if left > 0:
        parts.append(left)
    return parts


@st.composite
def shipped_recipe(draw, grishagin=False):
    """A cheap shipped benchmark problem as recipe (used by the differential checks)."""
    name = draw(st.sampled_from(["hill", "shekel", "rastrigin", "xsquared", "gkls"] + (["grishagin"] * 2 if grishagin else [])))
    if name == "grishagin":
        # the first members of a decade are the cheap ones to construct
        return {"shipped": [name, draw(st.sampled_from([1, 2, 3, 11, 12, 21, 31, 41]))], "density": 10}
    if name in ("hill", "shekel"):
        arg = draw(st.integers(0, 999))
    elif name in ("rastrigin", "xsquared"):
        arg = draw(st.integers(1, 4))
    else:
        arg = [draw(st.integers(2, 4)), draw(st.integers(1, 100))]
    return {"shipped": [name, arg], "density": 10}
