#!/bin/sh
# Offline setup: make sure hypothesis is importable by the interpreter the repository is installed in.
# Nothing is built: the checks import iOpt from /repo's working tree.
HERE="$(cd "$(dirname "$0")" && pwd)"
PY="${VERIF_PYTHON:-/venv/bin/python}"
if ! PYTHONPATH="$HERE/.deps" "$PY" -c "import hypothesis" 2>/dev/null; then
    "$PY" -m pip install --no-index --find-links /opt/veriftools/wheels --target "$HERE/.deps" hypothesis || exit 1
fi
PYTHONPATH="$HERE/.deps" "$PY" -c "import hypothesis, numpy, scipy, depq; print('setup ok: hypothesis', hypothesis.__version__)" || exit 1
chmod +x "$HERE/check" 2>/dev/null
exit 0
