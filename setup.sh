#!/bin/sh
# Offline setup: make sure hypothesis (every check) and atheris (thorough-tier fuzz:<kind> shards) are importable by
# the interpreter the repository is installed in.  Nothing is built: the checks import iOpt from /repo's working tree.
HERE="$(cd "$(dirname "$0")" && pwd)"
PY="${VERIF_PYTHON:-/venv/bin/python}"
WH=/opt/veriftools/wheels
if ! PYTHONPATH="$HERE/.deps" "$PY" -c "import hypothesis" 2>/dev/null; then
    "$PY" -m pip install --no-index --find-links $WH --target "$HERE/.deps" hypothesis || exit 1
fi
if ! PYTHONPATH="$HERE/.deps" "$PY" -c "import atheris" 2>/dev/null; then
    # only the thorough tier needs it; a missing wheel must not break the quick tier
    "$PY" -m pip install --no-index --find-links $WH --target "$HERE/.deps" atheris >/dev/null 2>&1 \
        || echo "setup: atheris not installable (thorough-tier fuzz shards will report a harness error)"
fi
PYTHONPATH="$HERE/.deps" "$PY" -c "import hypothesis, numpy, scipy, depq; print('setup ok: hypothesis', hypothesis.__version__)" || exit 1
chmod +x "$HERE/check" 2>/dev/null
exit 0
